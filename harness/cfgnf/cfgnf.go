// Package cfgnf is the observation function of the checks: it reads what HAProxy would load
// (every *.cfg of the configuration directory plus the map, crt-list and certificate files they
// reference) into a structured normal form. It only parses and canonicalises internal labels
// (server slot names, disabled slots, pathNN ids, auth-proxy ports and names, scratch directory
// prefix, certificate file names -> content digests); all semantics are TLA+ operators.
package cfgnf

import (
	"bufio"
	"crypto/sha1"
	"encoding/hex"
	"fmt"
	"os"
	"path/filepath"
	"regexp"
	"sort"
	"strings"
)

// Section is one proxy/global section as written.
type Section struct {
	Kind  string   `json:"kind"`
	Name  string   `json:"name"`
	File  string   `json:"file"`
	Lines []string `json:"lines"`
}

// Raw is everything loaded, before canonicalisation.
type Raw struct {
	Dir      string
	Prefix   string // LocalFSPrefix of the controller that wrote the files
	Sections []*Section
	Files    map[string][]string // referenced map / list files: path -> non comment lines
	Missing  []string            // referenced files that do not exist
	Certs    map[string]string   // certificate-like files: path -> digest
}

var (
	reMapRef  = regexp.MustCompile(`map_([a-z]+)\(([^,)]+)`)
	reFileRef = regexp.MustCompile(`\s-f\s+(\S+)`)
	reCrtList = regexp.MustCompile(`\scrt-list\s+(\S+)`)
	reCrtRef  = regexp.MustCompile(`\s(crt|ca-file|crl-file|ca-verify-file)\s+(\S+)`)
	rePathID  = regexp.MustCompile(`\bpath\d+\b`)
	reServer  = regexp.MustCompile(`^server\s+(\S+)\s+(\S+)(.*)$`)
	reAuthBk  = regexp.MustCompile(`\b_auth_backend\d+_\d+\b`)
)

func Digest(s string) string { return digest(s) }

func digest(s string) string {
	h := sha1.Sum([]byte(s))
	return hex.EncodeToString(h[:])[:12]
}

func readLines(path string) ([]string, error) {
	if st, err := os.Stat(path); err == nil && st.IsDir() {
		// a write fault is being injected on this file (harness): the old content is what a reader sees
		path = filepath.Join(path, ".orig")
	}
	fh, err := os.Open(path)
	if err != nil {
		return nil, err
	}
	defer fh.Close()
	var res []string
	sc := bufio.NewScanner(fh)
	sc.Buffer(make([]byte, 1024*1024), 32*1024*1024)
	for sc.Scan() {
		res = append(res, sc.Text())
	}
	return res, sc.Err()
}

func contentLines(path string) ([]string, error) {
	ls, err := readLines(path)
	if err != nil {
		return nil, err
	}
	var res []string
	for _, l := range ls {
		t := strings.TrimSpace(l)
		if t == "" || strings.HasPrefix(t, "#") {
			continue
		}
		res = append(res, t)
	}
	return res, nil
}

func normPEM(s string) string {
	var out []string
	for _, l := range strings.Split(s, "\n") {
		if strings.TrimSpace(l) != "" {
			out = append(out, l)
		}
	}
	return strings.Join(out, "\n")
}

// Load reads every *.cfg of dir in name order and follows file references.
func Load(dir, prefix string) (*Raw, error) {
	files, err := filepath.Glob(filepath.Join(dir, "*.cfg"))
	if err != nil {
		return nil, err
	}
	sort.Strings(files)
	r := &Raw{Dir: dir, Prefix: prefix, Files: map[string][]string{}, Certs: map[string]string{}}
	for _, f := range files {
		lines, err := readLines(f)
		if err != nil {
			return nil, err
		}
		var cur *Section
		for _, l := range lines {
			t := strings.TrimSpace(l)
			if t == "" || strings.HasPrefix(t, "#") {
				continue
			}
			if l[0] != ' ' && l[0] != '\t' {
				fs := strings.Fields(t)
				cur = &Section{Kind: fs[0], File: filepath.Base(f)}
				if len(fs) > 1 {
					cur.Name = fs[1]
				}
				r.Sections = append(r.Sections, cur)
				continue
			}
			if cur == nil {
				return nil, fmt.Errorf("%s: line outside of a section: %q", f, l)
			}
			cur.Lines = append(cur.Lines, strings.Join(strings.Fields(t), " "))
		}
	}
	for _, s := range r.Sections {
		for _, l := range s.Lines {
			for _, m := range reMapRef.FindAllStringSubmatch(l, -1) {
				r.loadFile(m[2])
			}
			for _, m := range reFileRef.FindAllStringSubmatch(l, -1) {
				r.loadFile(m[1])
			}
			for _, m := range reCrtList.FindAllStringSubmatch(" "+l, -1) {
				r.loadFile(m[1])
				for _, cl := range r.Files[m[1]] {
					f := strings.Fields(cl)
					if len(f) > 0 {
						r.loadCert(f[0])
					}
				}
			}
			for _, m := range reCrtRef.FindAllStringSubmatch(" "+l, -1) {
				r.loadCert(m[2])
			}
		}
	}
	sort.Strings(r.Missing)
	return r, nil
}

func (r *Raw) loadFile(path string) {
	if _, ok := r.Files[path]; ok {
		return
	}
	ls, err := contentLines(path)
	if err != nil {
		r.Files[path] = nil
		r.Missing = append(r.Missing, path)
		return
	}
	r.Files[path] = ls
}

func (r *Raw) loadCert(path string) {
	if _, ok := r.Certs[path]; ok {
		return
	}
	b, err := os.ReadFile(path)
	if err != nil {
		r.Certs[path] = "missing"
		r.Missing = append(r.Missing, path)
		return
	}
	if strings.Contains(filepath.Base(path), "_fake-") {
		// generated at every controller start
		r.Certs[path] = "fake"
		return
	}
	r.Certs[path] = digest(normPEM(string(b)))
}

// NF is the canonical normal form used by the equal-behaviour comparisons.
type NF struct {
	Sections map[string][]string `json:"sections"` // "kind name" -> canonical lines
	Maps     map[string][]string `json:"maps"`     // referenced map/list files, by canonical name
	Dups     []string            `json:"dups"`     // section names defined more than once
	Missing  []string            `json:"missing"`  // referenced files that do not exist
}

var reIntercept = regexp.MustCompile(`lua\.auth-intercept (\S+)`)

// PruneAuth returns a copy without the auth-proxy plumbing that no protected path refers to
// (`backend _auth_<port>`, its bind and use_backend in the auth frontend, `_auth_backendNNN` backends only
// reachable through them). Such sections cannot be reached by a request; they matter to C05, not to C01.
func (r *Raw) PruneAuth() *Raw {
	used := map[string]bool{}
	for _, s := range r.Sections {
		for _, l := range s.Lines {
			for _, m := range reIntercept.FindAllStringSubmatch(l, -1) {
				used[m[1]] = true
			}
		}
	}
	dropSec := map[*Section]bool{}
	keepTargets := map[string]bool{}
	n := &Raw{Dir: r.Dir, Prefix: r.Prefix, Files: r.Files, Missing: r.Missing, Certs: r.Certs}
	var authFront *Section
	for _, s := range r.Sections {
		if s.Kind == "frontend" && strings.HasPrefix(s.Name, "_front__auth") {
			authFront = s
		}
	}
	if authFront == nil {
		return r
	}
	port2id, id2target := map[string]string{}, map[string]string{}
	single := ""
	for _, l := range authFront.Lines {
		f := strings.Fields(l)
		if f[0] == "bind" {
			port := f[1][strings.LastIndex(f[1], ":")+1:]
			if len(f) >= 4 && f[2] == "id" {
				port2id[port] = f[3]
			} else {
				port2id[port] = ""
			}
		}
		if f[0] == "use_backend" {
			if len(f) >= 6 && f[4] == "so_id" {
				id2target[f[5]] = f[1]
			} else {
				single = f[1]
			}
		}
	}
	nf := &Section{Kind: authFront.Kind, Name: authFront.Name, File: authFront.File}
	nbind := 0
	for _, l := range authFront.Lines {
		f := strings.Fields(l)
		keep := true
		if f[0] == "bind" {
			port := f[1][strings.LastIndex(f[1], ":")+1:]
			keep = used["_auth_"+port]
			if keep {
				nbind++
				if id := port2id[port]; id != "" {
					keepTargets[id2target[id]] = true
				} else {
					keepTargets[single] = true
				}
			}
		}
		if keep {
			nf.Lines = append(nf.Lines, l)
		}
	}
	// second pass: use_backend lines of dropped binds
	var lines []string
	for _, l := range nf.Lines {
		f := strings.Fields(l)
		if f[0] == "use_backend" && !keepTargets[f[1]] {
			continue
		}
		lines = append(lines, l)
	}
	nf.Lines = lines
	for _, s := range r.Sections {
		if s.Kind == "backend" && strings.HasPrefix(s.Name, "_auth_") {
			if strings.HasPrefix(s.Name, "_auth_backend") {
				if !keepTargets[s.Name] {
					dropSec[s] = true
				}
			} else if !used[s.Name] {
				dropSec[s] = true
			}
		}
	}
	for _, s := range r.Sections {
		if dropSec[s] {
			continue
		}
		if s == authFront {
			if nbind > 0 {
				n.Sections = append(n.Sections, nf)
			}
			continue
		}
		n.Sections = append(n.Sections, s)
	}
	return n
}

// Canon computes the normal form.
var rePrioFile = regexp.MustCompile(`__(exact|prefix|begin|regex)_\d+\.map$`)
var rePrioRef = regexp.MustCompile(`map_[a-z]+\(([^,)]*__(?:exact|prefix|begin|regex)_\d+\.map)`)
var reSetVarName = regexp.MustCompile(`set-var\(([^)]+)\)`)

// canonPriority returns a copy of r in which the priority match files (host/path maps split because of overlapping paths:
// <base>__<type>_NN.map) are named after their content, and in which consecutive lookups of such files are put in a
// canonical order wherever their order cannot matter: two files whose keys belong to different hosts cannot both match one
// request. The numbering and relative order of the files of different hosts follows Go map iteration in the controller.
func (r *Raw) canonPriority() *Raw {
	ren := map[string]string{}
	hosts := map[string]map[string]bool{}
	for p, ls := range r.Files {
		if !rePrioFile.MatchString(p) {
			continue
		}
		sorted := append([]string{}, ls...)
		sort.Strings(sorted)
		ren[p] = rePrioFile.ReplaceAllString(p, "__${1}_p"+digest(strings.Join(sorted, "\n"))[:10]+".map")
		hs := map[string]bool{}
		for _, l := range ls {
			if f := strings.Fields(l); len(f) > 0 {
				hs[strings.SplitN(f[0], "#", 2)[0]] = true
			}
		}
		hosts[p] = hs
	}
	if len(ren) == 0 {
		return r
	}
	out := &Raw{Dir: r.Dir, Prefix: r.Prefix, Files: map[string][]string{}, Missing: r.Missing, Certs: r.Certs}
	for p, ls := range r.Files {
		if n, ok := ren[p]; ok {
			p = n
		}
		out.Files[p] = ls
	}
	disjoint := func(a, b string) bool {
		for h := range hosts[a] {
			if hosts[b][h] {
				return false
			}
		}
		return true
	}
	for _, s := range r.Sections {
		ns := &Section{Kind: s.Kind, Name: s.Name, File: s.File, Lines: append([]string{}, s.Lines...)}
		ref := func(l string) (file, v string) {
			m := rePrioRef.FindStringSubmatch(l)
			if m == nil {
				return "", ""
			}
			if vm := reSetVarName.FindStringSubmatch(l); vm != nil {
				v = vm[1]
			}
			return m[1], v
		}
		// bubble the commuting neighbours into content order
		for changed := true; changed; {
			changed = false
			for i := 0; i+1 < len(ns.Lines); i++ {
				fa, va := ref(ns.Lines[i])
				fb, vb := ref(ns.Lines[i+1])
				if fa == "" || fb == "" || va != vb || !disjoint(fa, fb) {
					continue
				}
				if ren[fa] > ren[fb] {
					ns.Lines[i], ns.Lines[i+1] = ns.Lines[i+1], ns.Lines[i]
					changed = true
				}
			}
		}
		for i, l := range ns.Lines {
			if f, _ := ref(l); f != "" {
				ns.Lines[i] = strings.ReplaceAll(l, f, ren[f])
			}
		}
		out.Sections = append(out.Sections, ns)
	}
	return out
}

func (r *Raw) Canon() *NF {
	r = r.canonPriority()
	nf := &NF{Sections: map[string][]string{}, Maps: map[string][]string{}, Dups: []string{}, Missing: []string{}}
	repl := r.renames()
	canonTok := func(l string) string {
		for _, kv := range repl {
			l = kv.re.ReplaceAllString(l, kv.to)
		}
		// certificate-like files by content
		for p, d := range r.Certs {
			if strings.Contains(l, p) {
				l = strings.ReplaceAll(l, p, "crt:"+d)
			}
		}
		if r.Prefix != "" {
			l = strings.ReplaceAll(l, r.Prefix, "$FS")
		}
		return l
	}
	seen := map[string]int{}
	for _, s := range r.Sections {
		key := canonTok(s.Kind + " " + s.Name)
		seen[key]++
		ids := r.pathIDs(s)
		var lines, servers []string
		names := map[string]string{} // server name -> address (use-server lines)
		for _, l := range s.Lines {
			if m := reServer.FindStringSubmatch(l); m != nil && s.Kind != "global" {
				names[m[1]] = m[2]
			}
		}
		for _, l := range s.Lines {
			l = replacePathIDs(l, ids)
			if m := reServer.FindStringSubmatch(l); m != nil && (s.Kind == "backend" || s.Kind == "listen") {
				rest := " " + m[3] + " "
				if strings.Contains(rest, " disabled ") {
					continue // empty slot
				}
				rest = strings.ReplaceAll(rest, " cookie "+m[1]+" ", " cookie * ")
				servers = append(servers, canonTok("server * "+m[2]+" "+strings.TrimSpace(rest)))
				continue
			}
			if strings.HasPrefix(l, "use-server ") {
				f := strings.Fields(l)
				if a, ok := names[f[1]]; ok {
					f[1] = "[" + a + "]"
					l = strings.Join(f, " ")
				}
			}
			lines = append(lines, canonTok(l))
		}
		sort.Strings(servers)
		lines = append(lines, servers...)
		if s.Kind == "frontend" && strings.HasPrefix(s.Name, "_front__auth") {
			sort.Strings(lines)
		}
		nf.Sections[key] = append(nf.Sections[key], lines...)
	}
	for k, n := range seen {
		if n > 1 {
			nf.Dups = append(nf.Dups, k)
		}
	}
	sort.Strings(nf.Dups)
	for p, ls := range r.Files {
		var out []string
		ids := r.pathIDsOfMap(p)
		for _, l := range ls {
			out = append(out, canonTok(replacePathIDs(l, ids)))
		}
		if out == nil {
			out = []string{}
		}
		nf.Maps[canonTok(p)] = out
	}
	for _, m := range r.Missing {
		nf.Missing = append(nf.Missing, canonTok(m))
	}
	return nf
}

type rename struct {
	re *regexp.Regexp
	to string
}

// renames canonicalises the auth-proxy plumbing: _auth_<port> backends, their local ports and socket ids
// are named after the backend they forward to; _auth_backendNNN_<port> after its servers.
func (r *Raw) renames() []rename {
	var res []rename
	// http://ip auth backends
	for _, s := range r.Sections {
		if s.Kind == "backend" && reAuthBk.MatchString(s.Name) && strings.HasPrefix(s.Name, "_auth_backend") {
			var addrs []string
			for _, l := range s.Lines {
				if m := reServer.FindStringSubmatch(l); m != nil {
					addrs = append(addrs, m[2])
				} else if strings.HasPrefix(l, "http-request set-header Host") {
					addrs = append(addrs, l[len("http-request set-header "):])
				}
			}
			sort.Strings(addrs)
			res = append(res, rename{regexp.MustCompile(`\b` + regexp.QuoteMeta(s.Name) + `\b`),
				"_auth_backend[" + strings.Join(addrs, ",") + "]"})
		}
	}
	canonTarget := func(t string) string {
		for _, kv := range res {
			t = kv.re.ReplaceAllString(t, kv.to)
		}
		return t
	}
	nback := len(res)
	_ = nback
	for _, s := range r.Sections {
		if s.Kind != "frontend" || !strings.HasPrefix(s.Name, "_front__auth") {
			continue
		}
		port2id := map[string]string{}
		id2target := map[string]string{}
		var ports []string
		single := ""
		for _, l := range s.Lines {
			f := strings.Fields(l)
			if f[0] == "bind" {
				port := f[1][strings.LastIndex(f[1], ":")+1:]
				ports = append(ports, port)
				if len(f) >= 4 && f[2] == "id" {
					port2id[port] = f[3]
				}
			}
			if f[0] == "use_backend" {
				if len(f) >= 6 && f[4] == "so_id" {
					id2target[f[5]] = f[1]
				} else {
					single = f[1]
				}
			}
		}
		for _, port := range ports {
			target := canonTarget(single)
			if id, ok := port2id[port]; ok {
				target = canonTarget(id2target[id])
				// socket ids only exist when there are two or more binds: plumbing, dropped
				res = append(res, rename{regexp.MustCompile(` if \{ so_id ` + id + ` \}`), ""})
				res = append(res, rename{regexp.MustCompile(` id ` + id + `\b`), ""})
			}
			res = append(res, rename{regexp.MustCompile(`\b_auth_` + port + `\b`), "_auth_[" + target + "]"})
			res = append(res, rename{regexp.MustCompile(`127\.0\.0\.1:` + port + `\b`), "127.0.0.1:PORT[" + target + "]"})
		}
	}
	// apply the backend renames to the targets used above as well (order: first list entries first)
	return res
}

// pathIDs maps the pathNN ids of a backend section to tokens naming their link, read from the
// id maps the section references.
func (r *Raw) pathIDs(s *Section) map[string]string {
	ids := map[string]string{}
	for _, l := range s.Lines {
		for _, m := range reMapRef.FindAllStringSubmatch(l, -1) {
			for k, v := range r.pathIDsOfMap(m[2]) {
				ids[k] = v
			}
		}
	}
	return ids
}

func (r *Raw) pathIDsOfMap(path string) map[string]string {
	ids := map[string]string{}
	base := filepath.Base(path)
	if !strings.Contains(base, "_idpath") {
		return ids
	}
	typ := base[strings.LastIndex(base, "__")+2:]
	typ = strings.TrimSuffix(typ, ".map")
	for _, l := range r.Files[path] {
		f := strings.Fields(l)
		if len(f) == 2 && rePathID.MatchString(f[1]) {
			ids[f[1]] = "P[" + typ + ":" + f[0] + "]"
		}
	}
	return ids
}

var reIDList = regexp.MustCompile(`(-m str)((?: P\[[^\]]*\])+)`)

func replacePathIDs(l string, ids map[string]string) string {
	if len(ids) == 0 {
		return l
	}
	l = rePathID.ReplaceAllStringFunc(l, func(id string) string {
		if t, ok := ids[id]; ok {
			return t
		}
		return id
	})
	return reIDList.ReplaceAllStringFunc(l, func(m string) string {
		sub := reIDList.FindStringSubmatch(m)
		toks := strings.Split(strings.TrimSpace(sub[2]), " P[")
		for i := range toks {
			if !strings.HasPrefix(toks[i], "P[") {
				toks[i] = "P[" + toks[i]
			}
		}
		sort.Strings(toks)
		return sub[1] + " " + strings.Join(toks, " ")
	})
}

// Digests gives one digest per section and per map, for cheap comparison and diff reporting.
func (n *NF) Digests() map[string]string {
	res := map[string]string{}
	for k, v := range n.Sections {
		res["s:"+k] = digest(strings.Join(v, "\n"))
	}
	for k, v := range n.Maps {
		res["m:"+k] = digest(strings.Join(v, "\n"))
	}
	return res
}

// Diff lists the entries that differ between two normal forms (for reports).
func Diff(a, b *NF) []string {
	var out []string
	da, db := a.Digests(), b.Digests()
	keys := map[string]bool{}
	for k := range da {
		keys[k] = true
	}
	for k := range db {
		keys[k] = true
	}
	var ks []string
	for k := range keys {
		ks = append(ks, k)
	}
	sort.Strings(ks)
	get := func(n *NF, k string) []string {
		if strings.HasPrefix(k, "s:") {
			return n.Sections[k[2:]]
		}
		return n.Maps[k[2:]]
	}
	for _, k := range ks {
		if da[k] == db[k] {
			continue
		}
		la, lb := get(a, k), get(b, k)
		sa, sb := map[string]bool{}, map[string]bool{}
		for _, l := range la {
			sa[l] = true
		}
		for _, l := range lb {
			sb[l] = true
		}
		var d []string
		for _, l := range la {
			if !sb[l] {
				d = append(d, "- "+l)
			}
		}
		for _, l := range lb {
			if !sa[l] {
				d = append(d, "+ "+l)
			}
		}
		if len(d) == 0 {
			d = append(d, "(same lines, different order)")
		}
		if _, ok := da[k]; !ok {
			d = []string{"(only in second)"}
		}
		if _, ok := db[k]; !ok {
			d = []string{"(only in first)"}
		}
		out = append(out, k+": "+strings.Join(d, " | "))
	}
	return out
}
