package cfgnf

import (
	"regexp"
	"sort"
	"strings"
)

// Ref is a reference from a section to something that must be defined.
type Ref struct {
	From string `json:"from"`
	To   string `json:"to"`
}

// BackendFacts are the names a backend section uses.
type BackendFacts struct {
	Name      string   `json:"name"`
	Servers   []string `json:"servers"`   // server names
	ServerIDs []string `json:"serverids"` // explicit `id` values
	IDsUsed   []string `json:"idsused"`   // pathNN ids used in ACLs
	IDsDef    []string `json:"idsdef"`    // pathNN ids defined by the id maps of the section
}

// Facts is what HAProxy's loader would check about references; evaluated by HAConfig!WellFormed.
type Facts struct {
	Defs         []string       `json:"defs"`         // "kind name", one entry per definition (duplicates kept)
	BackendRefs  []Ref          `json:"backendrefs"`  // use_backend / default_backend / backend-valued map entries
	UserlistRefs []Ref          `json:"userlistrefs"` // http_auth(<userlist>)
	Backends     []BackendFacts `json:"backends"`
	AuthPorts    []string       `json:"authports"` // local ports bound by the auth proxy frontend
	AuthSockIDs  []string       `json:"authsockids"`
	Binds        []string       `json:"binds"`   // every bind address
	Missing      []string       `json:"missing"` // referenced files that do not exist
}

var (
	reUseDyn   = regexp.MustCompile(`^use_backend %\[var\(([^)]+)\)\]`)
	reUseStat  = regexp.MustCompile(`^use_backend (\S+)`)
	reDefault  = regexp.MustCompile(`^default_backend (\S+)`)
	reSetVar   = regexp.MustCompile(`set-var\(([^)]+)\)`)
	reHTTPAuth = regexp.MustCompile(`http_auth\(([^)]+)\)`)
	reIDCond   = regexp.MustCompile(`var\(txn\.pathID\) -m str((?: path\d+)+)`)
	reSrvID    = regexp.MustCompile(`\sid (\d+)`)
)

func (r *Raw) Facts() *Facts {
	f := &Facts{Defs: []string{}, BackendRefs: []Ref{}, UserlistRefs: []Ref{}, Backends: []BackendFacts{},
		AuthPorts: []string{}, AuthSockIDs: []string{}, Binds: []string{}, Missing: append([]string{}, r.Missing...)}
	for _, s := range r.Sections {
		f.Defs = append(f.Defs, s.Kind+" "+s.Name)
		from := s.Kind + " " + s.Name
		dynVars := map[string]bool{}
		for _, l := range s.Lines {
			if m := reUseDyn.FindStringSubmatch(l); m != nil {
				dynVars[m[1]] = true
			} else if m := reUseStat.FindStringSubmatch(l); m != nil {
				f.BackendRefs = append(f.BackendRefs, Ref{from, m[1]})
			}
			if m := reDefault.FindStringSubmatch(l); m != nil {
				f.BackendRefs = append(f.BackendRefs, Ref{from, m[1]})
			}
			for _, m := range reHTTPAuth.FindAllStringSubmatch(l, -1) {
				f.UserlistRefs = append(f.UserlistRefs, Ref{from, m[1]})
			}
			if strings.HasPrefix(l, "bind ") {
				fs := strings.Fields(l)
				f.Binds = append(f.Binds, fs[1])
				if strings.HasPrefix(s.Name, "_front__auth") {
					f.AuthPorts = append(f.AuthPorts, fs[1])
					if len(fs) >= 4 && fs[2] == "id" {
						f.AuthSockIDs = append(f.AuthSockIDs, fs[3])
					}
				}
			}
		}
		for _, l := range s.Lines {
			sv := reSetVar.FindStringSubmatch(l)
			if sv == nil || !dynVars[sv[1]] {
				continue
			}
			for _, m := range reMapRef.FindAllStringSubmatch(l, -1) {
				for _, ml := range r.Files[m[2]] {
					fs := strings.Fields(ml)
					if len(fs) >= 2 {
						f.BackendRefs = append(f.BackendRefs, Ref{from + " via " + filepathBase(m[2]) + " " + fs[0], fs[1]})
					}
				}
			}
		}
		if s.Kind == "backend" || s.Kind == "listen" {
			b := BackendFacts{Name: s.Name, Servers: []string{}, ServerIDs: []string{}, IDsUsed: []string{}, IDsDef: []string{}}
			used, def := map[string]bool{}, map[string]bool{}
			for _, l := range s.Lines {
				if m := reServer.FindStringSubmatch(l); m != nil {
					b.Servers = append(b.Servers, m[1])
					if id := reSrvID.FindStringSubmatch(m[3]); id != nil {
						b.ServerIDs = append(b.ServerIDs, id[1])
					}
				}
				for _, m := range reIDCond.FindAllStringSubmatch(l, -1) {
					for _, id := range strings.Fields(m[1]) {
						used[id] = true
					}
				}
				for _, m := range reMapRef.FindAllStringSubmatch(l, -1) {
					if strings.Contains(m[2], "_idpath") {
						for _, ml := range r.Files[m[2]] {
							fs := strings.Fields(ml)
							if len(fs) == 2 {
								def[fs[1]] = true
							}
						}
					}
				}
			}
			for k := range used {
				b.IDsUsed = append(b.IDsUsed, k)
			}
			for k := range def {
				b.IDsDef = append(b.IDsDef, k)
			}
			sort.Strings(b.IDsUsed)
			sort.Strings(b.IDsDef)
			f.Backends = append(f.Backends, b)
		}
	}
	return f
}

func filepathBase(p string) string {
	if i := strings.LastIndex(p, "/"); i >= 0 {
		return p[i+1:]
	}
	return p
}
