package cfgnf

import (
	"regexp"
	"strings"
)

// Entry of a map file, key as characters (the TLA+ lookup operators work on character sequences).
type Entry struct {
	K []string `json:"k"`
	V string   `json:"v"`
	// entries of a map_reg file whose key is the regex the controller writes for a wildcard hostname,
	// ^[^.]+<quoted suffix>#<quoted path>[$ | (/.*)?] : W is the host suffix (".h1.local"), P the path text, Re "closed" when the
	// regex ends with $ and "open" otherwise (a regex is a search: without $ anything may follow).  W empty: not interpreted.
	W  []string `json:"w"`
	Re string   `json:"re"`
	P  []string `json:"p"`
}

var reWildKey = regexp.MustCompile(`^\^\[\^\.\]\+((?:\\\.|[a-z0-9-])+)#(.*)$`)

func unquoteMeta(s string) (string, bool) {
	var sb strings.Builder
	for i := 0; i < len(s); i++ {
		c := s[i]
		if c == '\\' && i+1 < len(s) {
			i++
			sb.WriteByte(s[i])
			continue
		}
		if strings.ContainsRune(`.+*?()|[]{}^$`, rune(c)) {
			return "", false
		}
		sb.WriteByte(c)
	}
	return sb.String(), true
}

// wildEntry interprets the key of a map_reg entry written for a wildcard hostname.
func wildEntry(e *Entry, key string) {
	e.W, e.P, e.Re = []string{}, []string{}, ""
	m := reWildKey.FindStringSubmatch(key)
	if m == nil {
		return
	}
	suffix, ok := unquoteMeta(m[1])
	if !ok {
		return
	}
	path, re := m[2], "open"
	switch {
	case strings.HasSuffix(path, "(/.*)?"):
		path = strings.TrimSuffix(path, "(/.*)?")
	case strings.HasSuffix(path, "$") && !strings.HasSuffix(path, "\\$"):
		path, re = strings.TrimSuffix(path, "$"), "closed"
	}
	text, ok := unquoteMeta(path)
	if !ok {
		return
	}
	e.W, e.P, e.Re = Chars(suffix), Chars(text), re
}

// Step is one rule of a frontend, in order.
type Step struct {
	Kind    string   `json:"kind"`    // setvar | use | default | deny | intercept | redirect | other
	Var     string   `json:"var"`     // setvar: variable assigned; use: variable holding the backend name ("" = static)
	Key     string   `json:"key"`     // setvar: base (host#path) | defbase (<default>#path) | host | sni
	Lower   bool     `json:"lower"`   //
	Method  string   `json:"method"`  // str | dir | beg | reg
	Entries []Entry  `json:"entries"` //
	Guard   string   `json:"guard"`   // setvar: only if this variable was not found yet ("" = always); the first of Guards
	Guards  []string `json:"guards"`  // setvar: every variable that must not have been found yet
	HasHdr  bool     `json:"hashdr"`  // setvar: guarded by header filters (not interpreted)
	Target  string   `json:"target"`  // use (static) / default: backend name
	Found   string   `json:"found"`   // use: `if { var(X) -m found }`
	Cond    string   `json:"cond"`    // any other condition, raw
	Raw     string   `json:"raw"`
}

// Frontend is the ordered rule list of one frontend section.
type Frontend struct {
	Name  string `json:"name"`
	Steps []Step `json:"steps"`
}

var (
	reSetVar2  = regexp.MustCompile(`^http-request set-var\(([^)]+)\) (\S+)(.*)$`)
	reUseDyn2  = regexp.MustCompile(`^use_backend %\[var\(([^)]+)\)\](.*)$`)
	reUseStat2 = regexp.MustCompile(`^use_backend (\S+)(.*)$`)
	reFoundC   = regexp.MustCompile(`^ if \{ var\(([^)]+)\) -m found \}$`)
	reNotFound = regexp.MustCompile(`!\{ var\(([^)]+)\) -m found \}`)
	reMapCall  = regexp.MustCompile(`map_([a-z]+)\(([^,)]+)`)
)

// Chars splits a string in one-character strings.
func Chars(s string) []string {
	r := make([]string, 0, len(s))
	for _, c := range s {
		r = append(r, string(c))
	}
	return r
}

// FrontendNF parses the rules of a frontend that decide where a request goes.
func (r *Raw) FrontendNF(name string) *Frontend {
	for _, s := range r.Sections {
		if (s.Kind != "frontend" && s.Kind != "listen") || s.Name != name {
			continue
		}
		f := &Frontend{Name: name, Steps: []Step{}}
		for _, l := range s.Lines {
			st := Step{Raw: l, Entries: []Entry{}, Guards: []string{}}
			switch {
			case reSetVar2.MatchString(l):
				m := reSetVar2.FindStringSubmatch(l)
				mc := reMapCall.FindStringSubmatch(m[2])
				if mc == nil {
					continue // plain variable assignments (req.path, req.host, req.base) are part of the key semantics
				}
				st.Kind, st.Var, st.Method = "setvar", m[1], mc[1]
				src := m[2]
				switch {
				case strings.HasPrefix(src, "var(req.base)"):
					st.Key = "base"
				case strings.HasPrefix(src, "str(<default>\\#),concat(,req.path)"):
					st.Key = "defbase"
				case strings.HasPrefix(src, "var(req.host)"):
					st.Key = "host"
				case strings.HasPrefix(src, "ssl_fc_sni"), strings.HasPrefix(src, "req.ssl_sni"):
					st.Key = "sni"
				default:
					st.Key = "other:" + src
				}
				st.Lower = strings.Contains(src, ",lower,")
				for _, e := range r.Files[mc[2]] {
					fs := strings.Fields(e)
					if len(fs) >= 2 {
						en := Entry{K: Chars(fs[0]), V: fs[1], W: []string{}, P: []string{}}
						if st.Method == "reg" {
							wildEntry(&en, fs[0])
						}
						st.Entries = append(st.Entries, en)
					}
				}
				rest := m[3]
				for _, g := range reNotFound.FindAllStringSubmatch(rest, -1) {
					if st.Guard == "" {
						st.Guard = g[1]
					}
					st.Guards = append(st.Guards, g[1])
					rest = strings.Replace(rest, g[0], "", 1)
				}
				st.HasHdr = strings.Contains(rest, "hdr(")
				rest = strings.TrimSpace(strings.TrimPrefix(strings.TrimSpace(rest), "if"))
				if rest != "" && !st.HasHdr {
					st.Cond = rest
				}
			case reUseDyn2.MatchString(l):
				m := reUseDyn2.FindStringSubmatch(l)
				st.Kind, st.Var = "use", m[1]
				if c := reFoundC.FindStringSubmatch(m[2]); c != nil {
					st.Found = c[1]
				} else if strings.TrimSpace(m[2]) != "" {
					st.Cond = strings.TrimSpace(m[2])
				}
			case reUseStat2.MatchString(l):
				m := reUseStat2.FindStringSubmatch(l)
				st.Kind, st.Target, st.Cond = "use", m[1], strings.TrimSpace(m[2])
			case strings.HasPrefix(l, "default_backend "):
				st.Kind, st.Target = "default", strings.Fields(l)[1]
			case strings.HasPrefix(l, "http-request deny"):
				st.Kind, st.Cond = "deny", strings.TrimSpace(strings.TrimPrefix(l, "http-request deny"))
			case strings.HasPrefix(l, "http-request lua.auth-intercept"):
				st.Kind, st.Cond = "intercept", l
			case strings.HasPrefix(l, "http-request redirect"):
				st.Kind, st.Cond = "redirect", l
			default:
				continue
			}
			f.Steps = append(f.Steps, st)
		}
		return f
	}
	return nil
}

// AuthStep is one access-control rule of a section that matters to external authentication.
type AuthStep struct {
	Kind   string     `json:"kind"`   // deny | intercept | redirect
	Unless bool       `json:"unless"` // conditioned on the authentication having failed (deny/redirect after an intercept)
	IDs    []string   `json:"ids"`    // `{ var(txn.pathID) -m str ... }`: path ids the rule is limited to (empty: not limited)
	Base   [][]string `json:"base"`   // `{ var(req.base) -m str ... }`: patterns (characters) the rule is limited to
	Allow  []string   `json:"allow"`  // `!{ path_beg X }`: requests whose path begins with X (characters) are exempt ([] = none)
	Other  string     `json:"other"`  // any other condition (not interpreted: the rule is then not counted as a guard)
	Raw    string     `json:"raw"`
	// intercept: what the call reaches -- the name given to lua.auth-intercept followed through the auth proxy
	// (backend _auth_<port> -> server 127.0.0.1:<port> -> bind of the auth frontend -> use_backend <target>), then the
	// servers of that target ("10.0.0.9:8000", ...); "" when the chain breaks somewhere
	Target  string   `json:"target"`
	Servers []string `json:"servers"`
}

var (
	reInterceptName = regexp.MustCompile(`^http-request lua\.auth-intercept (\S+) `)
	reBindID        = regexp.MustCompile(`^bind 127\.0\.0\.1:(\d+)(?: id (\d+))?`)
	reUsePlain      = regexp.MustCompile(`^use_backend (\S+)$`)
	reUseSoID       = regexp.MustCompile(`^use_backend (\S+) if \{ so_id (\d+) \}`)
	reSrvAddr       = regexp.MustCompile(`^server \S+ (\S+)`)
)

// ResolveAuthTargets fills Target / Servers of the intercept steps.
func (r *Raw) ResolveAuthTargets(steps []AuthStep) {
	lines := func(kind, name string) []string {
		for _, s := range r.Sections {
			if s.Kind == kind && s.Name == name {
				return s.Lines
			}
		}
		return nil
	}
	for i := range steps {
		steps[i].Servers = []string{}
		m := reInterceptName.FindStringSubmatch(steps[i].Raw)
		if steps[i].Kind != "intercept" || m == nil {
			continue
		}
		name := m[1]
		if strings.HasPrefix(name, "_auth_") && !strings.HasPrefix(name, "_auth_backend") {
			// through the auth proxy
			port := ""
			for _, l := range lines("backend", name) {
				if sm := reSrvAddr.FindStringSubmatch(l); sm != nil && strings.HasPrefix(sm[1], "127.0.0.1:") {
					port = strings.TrimPrefix(sm[1], "127.0.0.1:")
				}
			}
			id, target := "", ""
			for _, sec := range r.Sections {
				if sec.Kind != "frontend" && sec.Kind != "listen" {
					continue
				}
				found := false
				for _, l := range sec.Lines {
					if bm := reBindID.FindStringSubmatch(l); bm != nil && bm[1] == port && port != "" {
						found, id = true, bm[2]
					}
				}
				if !found {
					continue
				}
				for _, l := range sec.Lines {
					if um := reUseSoID.FindStringSubmatch(l); um != nil && id != "" && um[2] == id {
						target = um[1]
					}
					// a single bind: one unconditional use_backend
					if um := reUsePlain.FindStringSubmatch(l); um != nil && id == "" {
						target = um[1]
					}
				}
				break
			}
			name = target
		}
		steps[i].Target = name
		for _, l := range lines("backend", name) {
			if sm := reSrvAddr.FindStringSubmatch(l); sm != nil && !strings.Contains(l, " disabled") {
				steps[i].Servers = append(steps[i].Servers, sm[1])
			}
		}
	}
}

// BackendNF is what decides, inside a backend, which path a request belongs to and whether it is guarded.
type BackendNF struct {
	Name   string     `json:"name"`
	PathID []Step     `json:"pathid"` // the set-var(txn.pathID) lookups, in order
	Auth   []AuthStep `json:"auth"`
}

var (
	reCondIDs   = regexp.MustCompile(`\{ var\(txn\.pathID\) -m str((?: \S+)+?) \}`)
	reCondBase  = regexp.MustCompile(`\{ var\(req\.base\) -m str((?: \S+)+?) \}`)
	reCondFail  = regexp.MustCompile(`!\{ var\(txn\.auth_response_successful\) -m bool \}`)
	reAllowPath = regexp.MustCompile(`!\{ path_beg (\S+) \}`)
)

func parseAuth(l string) *AuthStep {
	var kind, rest string
	switch {
	case strings.HasPrefix(l, "http-request deny"):
		kind, rest = "deny", strings.TrimPrefix(l, "http-request deny")
	case strings.HasPrefix(l, "http-request lua.auth-intercept"):
		kind = "intercept"
		if i := strings.Index(l, " if "); i >= 0 {
			rest = l[i:]
		}
	case strings.HasPrefix(l, "http-request redirect location"):
		kind = "redirect"
		if i := strings.Index(l, " if "); i >= 0 {
			rest = l[i:]
		}
	default:
		return nil
	}
	a := &AuthStep{Kind: kind, Raw: l, IDs: []string{}, Base: [][]string{}, Allow: []string{}}
	rest = strings.TrimSpace(strings.TrimPrefix(strings.TrimSpace(rest), "if"))
	if reCondFail.MatchString(rest) {
		a.Unless = true
		rest = reCondFail.ReplaceAllString(rest, "")
	}
	if m := reCondIDs.FindStringSubmatch(rest); m != nil {
		a.IDs = strings.Fields(m[1])
		rest = strings.Replace(rest, m[0], "", 1)
	}
	if m := reCondBase.FindStringSubmatch(rest); m != nil {
		for _, p := range strings.Fields(m[1]) {
			a.Base = append(a.Base, Chars(strings.Trim(p, "'")))
		}
		rest = strings.Replace(rest, m[0], "", 1)
	}
	if m := reAllowPath.FindStringSubmatch(rest); m != nil {
		a.Allow = Chars(m[1])
		rest = strings.Replace(rest, m[0], "", 1)
	}
	a.Other = strings.TrimSpace(rest)
	return a
}

// AuthSteps lists the deny / auth-intercept / redirect rules of a section in order.
func (r *Raw) AuthSteps(kind, name string) []AuthStep {
	res := []AuthStep{}
	for _, s := range r.Sections {
		if s.Kind != kind || s.Name != name {
			continue
		}
		for _, l := range s.Lines {
			if a := parseAuth(l); a != nil {
				a.Servers = []string{}
				res = append(res, *a)
			}
		}
	}
	return res
}

// BackendNF parses a backend section.
func (r *Raw) BackendNF(name string) *BackendNF {
	for _, s := range r.Sections {
		if s.Kind != "backend" || s.Name != name {
			continue
		}
		b := &BackendNF{Name: name, PathID: []Step{}, Auth: r.AuthSteps("backend", name)}
		for _, l := range s.Lines {
			m := reSetVar2.FindStringSubmatch(l)
			if m == nil || m[1] != "txn.pathID" {
				continue
			}
			mc := reMapCall.FindStringSubmatch(m[2])
			if mc == nil {
				continue
			}
			st := Step{Kind: "setvar", Var: m[1], Method: mc[1], Raw: l, Entries: []Entry{}, Guards: []string{}}
			switch {
			case strings.HasPrefix(m[2], "var(req.base)"):
				st.Key = "base"
			case strings.HasPrefix(m[2], "str(<default>\\#),concat(,req.path)"):
				st.Key = "defbase"
			default:
				st.Key = "other"
			}
			st.Lower = strings.Contains(m[2], ",lower,")
			for _, e := range r.Files[mc[2]] {
				fs := strings.Fields(e)
				if len(fs) >= 2 {
					en := Entry{K: Chars(fs[0]), V: fs[1], W: []string{}, P: []string{}}
					if st.Method == "reg" {
						wildEntry(&en, fs[0])
					}
					st.Entries = append(st.Entries, en)
				}
			}
			if g := reNotFound.FindStringSubmatch(m[3]); g != nil {
				st.Guard = g[1]
			}
			st.HasHdr = strings.Contains(m[3], "hdr(")
			b.PathID = append(b.PathID, st)
		}
		return b
	}
	return nil
}
