package cfgnf

import (
	"regexp"
	"strings"
)

// Entry of a map file, key as characters (the TLA+ lookup operators work on character sequences).
type Entry struct {
	K []string `json:"k"`
	V string   `json:"v"`
}

// Step is one rule of a frontend, in order.
type Step struct {
	Kind    string  `json:"kind"`    // setvar | use | default | deny | intercept | redirect | other
	Var     string  `json:"var"`     // setvar: variable assigned; use: variable holding the backend name ("" = static)
	Key     string  `json:"key"`     // setvar: base (host#path) | defbase (<default>#path) | host | sni
	Lower   bool    `json:"lower"`   //
	Method  string  `json:"method"`  // str | dir | beg | reg
	Entries []Entry `json:"entries"` //
	Guard   string  `json:"guard"`   // setvar: only if this variable was not found yet ("" = always)
	HasHdr  bool    `json:"hashdr"`  // setvar: guarded by header filters (not interpreted)
	Target  string  `json:"target"`  // use (static) / default: backend name
	Found   string  `json:"found"`   // use: `if { var(X) -m found }`
	Cond    string  `json:"cond"`    // any other condition, raw
	Raw     string  `json:"raw"`
}

// Frontend is the ordered rule list of one frontend section.
type Frontend struct {
	Name  string `json:"name"`
	Steps []Step `json:"steps"`
}

var (
	reSetVar2  = regexp.MustCompile(`^http-request set-var\(([^)]+)\) (\S+)(.*)$`)
	reUseDyn2  = regexp.MustCompile(`^use_backend %\[var\(([^)]+)\)\](.*)$`)
	reUseStat2 = regexp.MustCompile(`^use_backend (\S+)(.*)$`)
	reFoundC   = regexp.MustCompile(`^ if \{ var\(([^)]+)\) -m found \}$`)
	reNotFound = regexp.MustCompile(`!\{ var\(([^)]+)\) -m found \}`)
	reMapCall  = regexp.MustCompile(`map_([a-z]+)\(([^,)]+)`)
)

// Chars splits a string in one-character strings.
func Chars(s string) []string {
	r := make([]string, 0, len(s))
	for _, c := range s {
		r = append(r, string(c))
	}
	return r
}

// FrontendNF parses the rules of a frontend that decide where a request goes.
func (r *Raw) FrontendNF(name string) *Frontend {
	for _, s := range r.Sections {
		if (s.Kind != "frontend" && s.Kind != "listen") || s.Name != name {
			continue
		}
		f := &Frontend{Name: name, Steps: []Step{}}
		for _, l := range s.Lines {
			st := Step{Raw: l, Entries: []Entry{}}
			switch {
			case reSetVar2.MatchString(l):
				m := reSetVar2.FindStringSubmatch(l)
				mc := reMapCall.FindStringSubmatch(m[2])
				if mc == nil {
					continue // plain variable assignments (req.path, req.host, req.base) are part of the key semantics
				}
				st.Kind, st.Var, st.Method = "setvar", m[1], mc[1]
				src := m[2]
				switch {
				case strings.HasPrefix(src, "var(req.base)"):
					st.Key = "base"
				case strings.HasPrefix(src, "str(<default>\\#),concat(,req.path)"):
					st.Key = "defbase"
				case strings.HasPrefix(src, "var(req.host)"):
					st.Key = "host"
				case strings.HasPrefix(src, "ssl_fc_sni"), strings.HasPrefix(src, "req.ssl_sni"):
					st.Key = "sni"
				default:
					st.Key = "other:" + src
				}
				st.Lower = strings.Contains(src, ",lower,")
				for _, e := range r.Files[mc[2]] {
					fs := strings.Fields(e)
					if len(fs) >= 2 {
						st.Entries = append(st.Entries, Entry{K: Chars(fs[0]), V: fs[1]})
					}
				}
				rest := m[3]
				if g := reNotFound.FindStringSubmatch(rest); g != nil {
					st.Guard = g[1]
					rest = strings.Replace(rest, g[0], "", 1)
				}
				st.HasHdr = strings.Contains(rest, "hdr(")
				rest = strings.TrimSpace(strings.TrimPrefix(strings.TrimSpace(rest), "if"))
				if rest != "" && !st.HasHdr {
					st.Cond = rest
				}
			case reUseDyn2.MatchString(l):
				m := reUseDyn2.FindStringSubmatch(l)
				st.Kind, st.Var = "use", m[1]
				if c := reFoundC.FindStringSubmatch(m[2]); c != nil {
					st.Found = c[1]
				} else if strings.TrimSpace(m[2]) != "" {
					st.Cond = strings.TrimSpace(m[2])
				}
			case reUseStat2.MatchString(l):
				m := reUseStat2.FindStringSubmatch(l)
				st.Kind, st.Target, st.Cond = "use", m[1], strings.TrimSpace(m[2])
			case strings.HasPrefix(l, "default_backend "):
				st.Kind, st.Target = "default", strings.Fields(l)[1]
			case strings.HasPrefix(l, "http-request deny"):
				st.Kind, st.Cond = "deny", strings.TrimSpace(strings.TrimPrefix(l, "http-request deny"))
			case strings.HasPrefix(l, "http-request lua.auth-intercept"):
				st.Kind, st.Cond = "intercept", l
			case strings.HasPrefix(l, "http-request redirect"):
				st.Kind, st.Cond = "redirect", l
			default:
				continue
			}
			f.Steps = append(f.Steps, st)
		}
		return f
	}
	return nil
}
