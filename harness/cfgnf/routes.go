package cfgnf

import (
	"fmt"
	"path/filepath"
	"regexp"
	"sort"
	"strings"
)

// Route is one entry of the routing maps of a frontend.
type Route struct {
	H  string `json:"h"`
	P  string `json:"p"`
	Ty string `json:"ty"`
	S  string `json:"s"` // backend name
}

// Crt is one crt-list entry: a host served with a certificate of its own.
type Crt struct {
	H    string `json:"h"`
	File string `json:"file"`
}

// Back is a backend with the servers that receive traffic.
type Back struct {
	S   string   `json:"s"`
	Eps []string `json:"eps"` // addr:port of enabled servers with weight > 0
	Dr  []string `json:"dr"`  // enabled servers with weight 0 (draining)
}

var methodType = map[string]string{"str": "exact", "dir": "prefix", "beg": "begin", "reg": "regex"}
var reVarMap = regexp.MustCompile(`set-var\((req\.backend|req\.defaultbackend|req\.hostbackend)\).*map_([a-z]+)\(([^,)]+)`)

// Routes lists the host/path rules of the plain HTTP frontend (scheme "http") or the HTTPS one.
func (r *Raw) Routes(https bool) []Route {
	res := []Route{}
	for _, s := range r.Sections {
		if s.Kind != "frontend" {
			continue
		}
		isHTTPS := strings.HasPrefix(s.Name, "_front_https")
		if s.Name != "_front_http" && !isHTTPS {
			continue
		}
		if isHTTPS != https {
			continue
		}
		for _, l := range s.Lines {
			m := reVarMap.FindStringSubmatch(l)
			if m == nil {
				continue
			}
			ty := methodType[m[2]]
			for _, ml := range r.Files[m[3]] {
				f := strings.Fields(ml)
				if len(f) < 2 {
					continue
				}
				i := strings.Index(f[0], "#")
				if i < 0 {
					continue
				}
				res = append(res, Route{H: f[0][:i], P: f[0][i+1:], Ty: ty, S: f[1]})
			}
		}
	}
	sort.Slice(res, func(i, j int) bool {
		a, b := res[i], res[j]
		return a.H+"#"+a.P+"#"+a.Ty < b.H+"#"+b.P+"#"+b.Ty
	})
	return res
}

// CrtList lists the non-default entries of the crt-list of the HTTPS bind.
func (r *Raw) CrtList() []Crt {
	res := []Crt{}
	for p, ls := range r.Files {
		if filepath.Base(p) != "_front_bind_crt.list" {
			continue
		}
		for _, l := range ls {
			f := strings.Fields(l)
			if len(f) < 2 || f[1] == "!*" {
				continue
			}
			for _, sni := range f[1:] {
				if strings.HasPrefix(sni, "[") {
					continue
				}
				res = append(res, Crt{H: sni, File: f[0]})
			}
		}
	}
	sort.Slice(res, func(i, j int) bool { return res[i].H < res[j].H })
	return res
}

// Backs lists the backends with their enabled servers.
func (r *Raw) Backs() []Back {
	res := []Back{}
	for _, s := range r.Sections {
		if s.Kind != "backend" {
			continue
		}
		b := Back{S: s.Name, Eps: []string{}, Dr: []string{}}
		for _, l := range s.Lines {
			m := reServer.FindStringSubmatch(l)
			if m == nil {
				continue
			}
			rest := " " + m[3] + " "
			if strings.Contains(rest, " disabled ") {
				continue
			}
			if strings.Contains(rest, " weight 0 ") {
				b.Dr = append(b.Dr, m[2])
			} else {
				b.Eps = append(b.Eps, m[2])
			}
		}
		sort.Strings(b.Eps)
		sort.Strings(b.Dr)
		res = append(res, b)
	}
	sort.Slice(res, func(i, j int) bool { return res[i].S < res[j].S })
	return res
}

var reWeightTok = regexp.MustCompile(`\sweight (\d+)`)

// ServerWeights maps addr:port to the weight written on the server line of a backend (enabled servers only).
func ServerWeights(r *Raw, backend string) map[string]int {
	res := map[string]int{}
	for _, s := range r.Sections {
		if s.Kind != "backend" || s.Name != backend {
			continue
		}
		for _, l := range s.Lines {
			m := reServer.FindStringSubmatch(l)
			if m == nil || strings.Contains(" "+m[3]+" ", " disabled ") {
				continue
			}
			w := 1
			if wm := reWeightTok.FindStringSubmatch(" " + m[3]); wm != nil {
				fmt.Sscanf(wm[1], "%d", &w)
			}
			res[m[2]] = w
		}
	}
	return res
}

// ServerWeightsAll is ServerWeights for backends that may list an address more than once (a Gateway API rule with two
// backendRefs to the same Service): every weight written for the address, in the order of the server lines.
func ServerWeightsAll(r *Raw, backend string) map[string][]int {
	res := map[string][]int{}
	for _, s := range r.Sections {
		if s.Kind != "backend" || s.Name != backend {
			continue
		}
		for _, l := range s.Lines {
			m := reServer.FindStringSubmatch(l)
			if m == nil || strings.Contains(" "+m[3]+" ", " disabled ") {
				continue
			}
			w := 1
			if wm := reWeightTok.FindStringSubmatch(" " + m[3]); wm != nil {
				fmt.Sscanf(wm[1], "%d", &w)
			}
			res[m[2]] = append(res[m[2]], w)
		}
	}
	return res
}
