// acmex drives the acme parts of the real controller for spec/Acme.tla:
//
//	-mode rows: every decision row through the real signer (real cache facade over the fake API server, stub acme client, hook H4);
//	-mode hist: histories of ingress changes, sync kinds and leadership on the real pipeline, with a recording queue behind the
//	            real acme queue facade and the real leader elector over an in-memory lock.
package main

import (
	"context"
	"crypto/ecdsa"
	"crypto/elliptic"
	"crypto/rand"
	"crypto/x509"
	"crypto/x509/pkix"
	"encoding/json"
	"encoding/pem"
	"errors"
	"flag"
	"fmt"
	"io"
	"math/big"
	"os"
	"reflect"
	"sort"
	"strings"
	"sync"
	"time"

	api "k8s.io/api/core/v1"
	apierrors "k8s.io/apimachinery/pkg/api/errors"
	metav1 "k8s.io/apimachinery/pkg/apis/meta/v1"
	"k8s.io/apimachinery/pkg/runtime/schema"
	"k8s.io/client-go/tools/leaderelection/resourcelock"
	"k8s.io/klog/v2"
	"sigs.k8s.io/controller-runtime/pkg/client"

	"github.com/jcmoraisjr/haproxy-ingress/pkg/acme"

	"verifharness/kobj"
	"verifharness/pipeline"
	"verifharness/world"
)

const endpoint = "https://acme.invalid"

var account = acme.Account{Endpoint: endpoint, Emails: "ops@example.local", TermsAgreed: true}

// ---- stub acme client

type stubClient struct {
	mu      sync.Mutex
	outcome string
	calls   [][]string
}

func (c *stubClient) Sign(domains []string, chain string) (crt, key []byte, err error) {
	c.mu.Lock()
	defer c.mu.Unlock()
	c.calls = append(c.calls, append([]string{}, domains...))
	switch c.outcome {
	case "ok":
		return []byte("STUBCRT"), []byte("STUBKEY"), nil
	case "okwarn":
		return []byte("STUBCRT"), []byte("STUBKEY"), errors.New("stub: alternate chain not found")
	case "crtonly":
		return []byte("STUBCRT"), nil, errors.New("stub: key lost")
	case "keyonly":
		return nil, []byte("STUBKEY"), errors.New("stub: order failed")
	}
	return nil, nil, errors.New("stub: authorization failed")
}

// ---- recording queue

type op struct {
	Sec  string   `json:"sec"`
	Doms []string `json:"doms"`
}

type recQueue struct {
	mu   sync.Mutex
	adds []op
	dels []op
}

func parseItem(item interface{}) op {
	f := strings.Split(item.(string), ",")
	name := f[0]
	if i := strings.Index(name, "/"); i >= 0 {
		name = name[i+1:]
	}
	o := op{Sec: name, Doms: []string{}}
	if len(f) > 2 {
		o.Doms = append(o.Doms, f[2:]...)
	}
	return o
}

func (q *recQueue) Add(item interface{}) {
	q.mu.Lock()
	defer q.mu.Unlock()
	q.adds = append(q.adds, parseItem(item))
}
func (q *recQueue) AddAfter(item interface{}, d time.Duration) { q.Add(item) }
func (q *recQueue) Remove(item interface{}) {
	q.mu.Lock()
	defer q.mu.Unlock()
	q.dels = append(q.dels, parseItem(item))
}
func (q *recQueue) Start(ctx context.Context) error { <-ctx.Done(); return nil }
func (q *recQueue) take() ([]op, []op) {
	q.mu.Lock()
	defer q.mu.Unlock()
	a, d := q.adds, q.dels
	q.adds, q.dels = nil, nil
	if a == nil {
		a = []op{}
	}
	if d == nil {
		d = []op{}
	}
	return a, d
}

// ---- in-memory lease

type memLock struct {
	mu    sync.Mutex
	rec   *resourcelock.LeaderElectionRecord
	other bool
}

func (l *memLock) setOther(other bool) {
	l.mu.Lock()
	defer l.mu.Unlock()
	l.other = other
	l.rec = nil
}

func (l *memLock) Get(ctx context.Context) (*resourcelock.LeaderElectionRecord, []byte, error) {
	l.mu.Lock()
	defer l.mu.Unlock()
	if l.other {
		// another controller holds the lease and keeps renewing it
		now := metav1.NewTime(time.Now())
		r := &resourcelock.LeaderElectionRecord{HolderIdentity: "other", LeaseDurationSeconds: 3, AcquireTime: now, RenewTime: now}
		b, _ := json.Marshal(r)
		return r, b, nil
	}
	if l.rec == nil {
		return nil, nil, apierrors.NewNotFound(schema.GroupResource{Group: "coordination.k8s.io", Resource: "leases"}, "verif")
	}
	r := *l.rec
	b, _ := json.Marshal(r)
	return &r, b, nil
}
func (l *memLock) Create(ctx context.Context, ler resourcelock.LeaderElectionRecord) error {
	return l.Update(ctx, ler)
}
func (l *memLock) Update(ctx context.Context, ler resourcelock.LeaderElectionRecord) error {
	l.mu.Lock()
	defer l.mu.Unlock()
	if l.other {
		return errors.New("lease is held by other")
	}
	l.rec = &ler
	return nil
}
func (l *memLock) RecordEvent(string) {}
func (l *memLock) Identity() string   { return "verif-self" }
func (l *memLock) Describe() string   { return "memory/verif" }

// ---- part A

type row struct {
	Sec  string `json:"sec"`
	Exp  string `json:"exp"`
	Sans string `json:"sans"`
	Dom  string `json:"dom"`
	Sign string `json:"sign"`
}

type rowObs struct {
	Signs   [][]string `json:"signs"`
	Written bool       `json:"written"`
	Changed bool       `json:"changed"`
	Err     bool       `json:"err"`
}

var names = map[string][]string{"a": {"a.local"}, "b": {"b.local"}, "ab": {"a.local", "b.local"}, "abw": {"a.local", "b.local", "w.sub.local"},
	"wild": {"*.local"}, "wildw": {"*.local", "w.sub.local"}}

var ecKey, _ = ecdsa.GenerateKey(elliptic.P256(), rand.Reader)

func makeCert(dns []string, notAfter time.Time) []byte {
	tmpl := &x509.Certificate{SerialNumber: big.NewInt(time.Now().UnixNano()), Subject: pkix.Name{CommonName: dns[0]}, DNSNames: dns,
		NotBefore: time.Now().Add(-400 * 24 * time.Hour), NotAfter: notAfter, KeyUsage: x509.KeyUsageDigitalSignature, BasicConstraintsValid: true}
	der, err := x509.CreateCertificate(rand.Reader, tmpl, tmpl, &ecKey.PublicKey, ecKey)
	if err != nil {
		panic(err)
	}
	return pem.EncodeToMemory(&pem.Block{Type: "CERTIFICATE", Bytes: der})
}

const window = 30 * 24 * time.Hour

func getSecret(p *pipeline.Pipeline, ns, name string) *api.Secret {
	s := &api.Secret{}
	if err := p.Client.Get(p.Ctx, client.ObjectKey{Namespace: ns, Name: name}, s); err != nil {
		return nil
	}
	return s
}

func runRows(w *world.World, rows []row, enc *json.Encoder) error {
	p := w.P
	signer := p.Svc.VerifAcmeSigner()
	stub := &stubClient{}
	acme.VerifInject(signer, stub, account)
	signer.AcmeConfig(window)
	for i, r := range rows {
		if old := getSecret(p, "a", "crt"); old != nil {
			if _, err := pipeline.Remove(p.Ctx, p.Client, old); err != nil {
				return err
			}
		}
		var off time.Duration
		switch r.Exp {
		case "expired":
			off = -window - 24*time.Hour
		case "inside":
			off = -10 * 24 * time.Hour
		case "edge-in":
			off = -30 * time.Second
		case "edge-out":
			off = 30 * time.Second
		case "far":
			off = 60 * 24 * time.Hour
		}
		switch r.Sec {
		case "nocrt":
			_, _, _ = pipeline.Store(p.Ctx, p.Client, kobj.Secret("a", "crt", map[string][]byte{"tls.key": []byte("k")}))
		case "garbage":
			_, _, _ = pipeline.Store(p.Ctx, p.Client, kobj.Secret("a", "crt", map[string][]byte{"tls.crt": []byte("garbage"), "tls.key": []byte("k")}))
		case "cert":
			_, _, _ = pipeline.Store(p.Ctx, p.Client, kobj.Secret("a", "crt", map[string][]byte{"tls.crt": makeCert(names[r.Sans], time.Now().Add(window+off)), "tls.key": []byte("k")}))
		case "chain":
			// the certificate followed by its issuer: other names, other dates
			crt := append(makeCert(names[r.Sans], time.Now().Add(window+off)), makeCert([]string{"issuer.example"}, time.Now().Add(-window))...)
			_, _, _ = pipeline.Store(p.Ctx, p.Client, kobj.Secret("a", "crt", map[string][]byte{"tls.crt": crt, "tls.key": []byte("k")}))
		}
		before := getSecret(p, "a", "crt")
		stub.outcome, stub.calls = r.Sign, nil
		err := signer.Notify("a/crt,," + strings.Join(names[r.Dom], ","))
		after := getSecret(p, "a", "crt")
		o := rowObs{Signs: stub.calls, Err: err != nil}
		if o.Signs == nil {
			o.Signs = [][]string{}
		}
		o.Written = after != nil && string(after.Data["tls.crt"]) == "STUBCRT" && string(after.Data["tls.key"]) == "STUBKEY"
		o.Changed = (before == nil) != (after == nil) || (before != nil && !reflect.DeepEqual(before.Data, after.Data))
		_ = enc.Encode(map[string]interface{}{"ev": "Row", "id": fmt.Sprintf("r%d", i), "r": r, "o": o})
	}
	return nil
}

// ---- part B

type ingVal struct {
	Acme  string `json:"acme"` // no | signer (cert-signer: acme) | ann (kubernetes.io/tls-acme: "true")
	Sec   string `json:"sec"`
	Hosts string `json:"hosts"`
}

type change struct {
	Slot int    `json:"slot"`
	V    ingVal `json:"v"`
}

type step struct {
	Ops    []change        `json:"ops"`
	Full   bool            `json:"full"`
	Leader bool            `json:"leader"`
	Ing    json.RawMessage `json:"ing"`
	Ing0   json.RawMessage `json:"ing0"` // the ingresses before the late changes
	// TrackAnn: --acme-track-tls-annotation (one value per history)
	TrackAnn bool `json:"trackann"`
	// Fail: the reload of this step's update fails once; the controller's own retry follows
	Fail bool `json:"fail"`
	// Late: changes that arrive after the failed update and before the retry
	Late []change `json:"late"`
}

func ingress(slot int, v ingVal) client.Object {
	ann := map[string]string{"ssl-redirect": "false"}
	switch v.Acme {
	case "signer":
		ann["cert-signer"] = "acme"
	case "ann":
		ann["kubernetes.io/tls-acme"] = "true"
	}
	var rules []kobj.Rule
	for _, h := range names[v.Hosts] {
		rules = append(rules, kobj.Rule{Host: h, Paths: []kobj.Path{{Path: fmt.Sprintf("/i%d", slot), Svc: "app", Port: "8080"}}})
	}
	return kobj.Ingress("a", fmt.Sprintf("i%d", slot), slot, ann, nil, rules, []kobj.TLS{{Hosts: names[v.Hosts], Secret: v.Sec}}, nil)
}

func runHist(base, id string, steps []step) ([]map[string]interface{}, error) {
	w, err := world.New(base, nil, pipeline.Options{WatchWithoutClass: true, ConfigMapName: "ingress/cfg", AcmeServer: true,
		AcmeTrackTLSAnn: len(steps) > 0 && steps[0].TrackAnn})
	if err != nil {
		return nil, err
	}
	defer w.Close()
	p := w.P
	lock := &memLock{}
	if err := p.Svc.VerifLeaderElection(lock, 3*time.Second, 2*time.Second, 20*time.Millisecond); err != nil {
		return nil, err
	}
	q := &recQueue{}
	p.Svc.VerifAcmeSetQueue(q)
	acme.VerifInject(p.Svc.VerifAcmeSigner(), &stubClient{outcome: "ok"}, account)
	go func() { _ = p.Svc.VerifLeaderStart(p.Ctx) }()
	waitLeader := func(want bool) error {
		lock.setOther(!want)
		for i := 0; i < 600; i++ {
			if p.Svc.VerifIsLeader() == want {
				return nil
			}
			time.Sleep(10 * time.Millisecond)
		}
		return fmt.Errorf("%s: leadership did not become %v", id, want)
	}
	if err := waitLeader(true); err != nil {
		return nil, err
	}
	p.Apply(kobj.ConfigMap("ingress", "cfg", map[string]string{"acme-emails": account.Emails, "acme-endpoint": endpoint, "acme-terms-agreed": "true"}))
	p.Apply(kobj.Service("a", "app", nil, ":8080:8080"))
	p.Apply(kobj.Endpoints("a", "app", []string{"10.1.0.1:p"}, nil, ":8080"))
	if _, err := p.Reconcile(true); err != nil {
		return nil, err
	}
	if _, err := p.ReconcilePending(false); err != nil {
		return nil, err
	}
	q.take()
	res := []map[string]interface{}{{"ev": "Reset", "id": id}}
	var pendingLate []change
	for i, st := range steps {
		if err := waitLeader(st.Leader); err != nil {
			return nil, err
		}
		for _, c := range append(pendingLate, st.Ops...) {
			if c.V.Sec == "none" {
				if _, err := p.Delete(ingress(c.Slot, ingVal{Acme: "no", Sec: "s1", Hosts: "a"})); err != nil {
					return nil, err
				}
			} else if _, _, err := p.Apply(ingress(c.Slot, c.V)); err != nil {
				return nil, err
			}
		}
		if st.Fail {
			w.Sim.SetPlan(nil, 1, 0)
		}
		var rerr error
		if st.Full {
			_, rerr = p.Reconcile(true)
		}
		if _, err := p.ReconcilePending(false); err != nil && rerr == nil {
			rerr = err
		}
		if rerr != nil {
			if !st.Fail {
				return nil, rerr
			}
			// changes keep arriving while the controller waits for its retry
			for _, c := range st.Late {
				if c.V.Sec == "none" {
					if _, err := p.Delete(ingress(c.Slot, ingVal{Acme: "no", Sec: "s1", Hosts: "a"})); err != nil {
						return nil, err
					}
				} else if _, _, err := p.Apply(ingress(c.Slot, c.V)); err != nil {
					return nil, err
				}
			}
			// what the controller does after --reload-retry: the same queue item again, with the batch collected meanwhile
			if _, err := p.Reconcile(st.Full); err != nil {
				return nil, fmt.Errorf("%s step %d: the retry failed too: %w", id, i, err)
			}
		}
		w.Sim.SetPlan(nil, 0, 0)
		pendingLate = nil
		if rerr == nil {
			pendingLate = st.Late // the update did not fail: these changes belong to the next batch
		}
		if p.Svc.VerifIsLeader() != st.Leader {
			return nil, fmt.Errorf("%s step %d: leadership changed during the step", id, i)
		}
		adds, dels := q.take()
		sortOps(adds)
		sortOps(dels)
		res = append(res, map[string]interface{}{"ev": "Step", "id": id, "step": i, "st": st, "adds": adds, "dels": dels, "failed": rerr != nil})
	}
	return res, nil
}

func sortOps(o []op) {
	sort.Slice(o, func(i, j int) bool {
		return o[i].Sec+strings.Join(o[i].Doms, ",") < o[j].Sec+strings.Join(o[j].Doms, ",")
	})
}

func main() {
	mode := flag.String("mode", "rows", "rows | hist")
	in := flag.String("in", "", "input (json)")
	outf := flag.String("out", "", "ndjson")
	work := flag.String("work", "", "scratch")
	par := flag.Int("par", 16, "hist: parallel worlds")
	flag.Parse()
	kfs := flag.NewFlagSet("klog", flag.ContinueOnError)
	klog.InitFlags(kfs)
	_ = kfs.Set("logtostderr", "false")
	_ = kfs.Set("alsologtostderr", "false")
	_ = kfs.Set("stderrthreshold", "FATAL")
	klog.SetOutput(io.Discard)
	world.Chdir()
	data, err := os.ReadFile(*in)
	if err != nil {
		fmt.Fprintln(os.Stderr, err)
		os.Exit(2)
	}
	f, _ := os.Create(*outf)
	defer f.Close()
	enc := json.NewEncoder(f)
	enc.SetEscapeHTML(false)
	if *mode == "rows" {
		var rows []row
		if err := json.Unmarshal(data, &rows); err != nil {
			fmt.Fprintln(os.Stderr, err)
			os.Exit(2)
		}
		w, err := world.New(*work, nil, pipeline.Options{WatchWithoutClass: true, ConfigMapName: "ingress/cfg", AcmeServer: true})
		if err != nil {
			fmt.Fprintln(os.Stderr, err)
			os.Exit(2)
		}
		defer w.Close()
		if err := runRows(w, rows, enc); err != nil {
			fmt.Fprintln(os.Stderr, err)
			os.Exit(2)
		}
		fmt.Printf("{\"rows\":%d}\n", len(rows))
		return
	}
	var hs [][]step
	if err := json.Unmarshal(data, &hs); err != nil {
		fmt.Fprintln(os.Stderr, err)
		os.Exit(2)
	}
	res := make([][]map[string]interface{}, len(hs))
	errs := make([]error, len(hs))
	var wg sync.WaitGroup
	sem := make(chan struct{}, *par)
	for i := range hs {
		wg.Add(1)
		sem <- struct{}{}
		go func(i int) {
			defer wg.Done()
			defer func() { <-sem }()
			res[i], errs[i] = runHist(*work, fmt.Sprintf("h%d", i), hs[i])
		}(i)
	}
	wg.Wait()
	for i := range hs {
		if errs[i] != nil {
			fmt.Fprintln(os.Stderr, errs[i])
			os.Exit(2)
		}
		for _, r := range res[i] {
			_ = enc.Encode(r)
		}
	}
	fmt.Printf("{\"histories\":%d}\n", len(hs))
}
