// authx configures, through the real pipeline, every external-authentication case enumerated by TLC from
// spec/AuthFail.tla and records the frontend and backend rules that stand between a request and the protected path.
package main

import (
	"encoding/json"
	"flag"
	"fmt"
	"os"
	"sync"

	"verifharness/cfgnf"
	"verifharness/kobj"
	"verifharness/pipeline"
	"verifharness/world"
)

type cs struct {
	URL       string `json:"url"`
	OAuth     string `json:"oauth"`
	Placement string `json:"placement"`
	PType     string `json:"ptype"`
	Lua       bool   `json:"lua"`
	Range     string `json:"range"`
	Open      string `json:"open"`
	Cors      bool   `json:"cors"`    // the unprotected path that shares the backend enables CORS
	PubAuth   bool   `json:"pubauth"` // the other path of the backend declares an auth-url of its own (and so is protected too)
	Src       string `json:"src"`     // ingress | service: where the authentication is declared
	OPrefix   string `json:"oprefix"` // default | root: oauth-uri-prefix
	Elder     string `json:"elder"`   // none | backend | frontend: an older Ingress of the host declares the placement itself
	Twin      bool   `json:"twin"`    // another namespace has a Service with the name of the auth service, used the same way by an older Ingress
}

type rule struct {
	ID        string   `json:"id"`
	P         []string `json:"p"`
	Ty        string   `json:"ty"`
	Protected bool     `json:"protected"`
}

type rec struct {
	ID      string           `json:"id"`
	Cs      cs               `json:"cs"`
	Rules   []rule           `json:"rules"`
	Reqs    [][]string       `json:"reqs"`
	Front   []cfgnf.AuthStep `json:"front"`
	Backend *cfgnf.BackendNF `json:"backend"`
}

var urls = map[string]string{
	"svc_ok":             "svc://auth:8080/check",
	"http_ok":            "http://10.0.0.9:8000/check",
	"https_unresolvable": "https://auth.nowhere.invalid/check",
	"malformed":          "http://",
	"unknown_proto":      "ftp://10.0.0.9/check",
	"missing_port":       "svc://auth/check",
	"unknown_svc":        "svc://nosuch:8080/check",
	"trailing_blank":     "http://10.0.0.9:8000/check ",
	"quoted":             "\"http://10.0.0.9:8000/check\"",
}

func runCase(base string, i int, c cs) (rec, error) {
	r := rec{ID: fmt.Sprintf("c%d", i), Cs: c, Reqs: [][]string{}}
	w, err := world.New(base, nil, pipeline.Options{WatchWithoutClass: true, ConfigMapName: "ingress/cfg"})
	if err != nil {
		return r, err
	}
	defer w.Close()
	p := w.P
	global := map[string]string{"external-has-lua": fmt.Sprint(c.Lua)}
	switch c.Range {
	case "invalid":
		global["auth-proxy"] = "_front__auth:x-y"
	case "exhausted":
		global["auth-proxy"] = "_front__auth:14415-14415"
	}
	p.Apply(kobj.ConfigMap("ingress", "cfg", global))
	for k, s := range []string{"app", "app2", "auth"} {
		p.Apply(kobj.Service("d", s, nil, ":8080:8080"))
		p.Apply(kobj.Endpoints("d", s, []string{fmt.Sprintf("10.1.0.%d:p", k+1)}, nil, ":8080"))
	}
	if c.Range == "exhausted" {
		// an older ingress takes the only auth-proxy port
		p.Apply(kobj.Ingress("d", "first", 0, map[string]string{"auth-url": "http://10.0.0.8:8000/other", "ssl-redirect": "false"}, nil,
			[]kobj.Rule{{Host: "c.local", Paths: []kobj.Path{{Path: "/", Svc: "app2", Port: "8080"}}}}, nil, nil))
	}
	if c.Twin {
		p.Apply(kobj.Service("e", "auth", nil, ":8080:8080"))
		p.Apply(kobj.Endpoints("e", "auth", []string{"10.9.9.9:p"}, nil, ":8080"))
		p.Apply(kobj.Service("e", "app", nil, ":8080:8080"))
		p.Apply(kobj.Endpoints("e", "app", []string{"10.9.9.8:p"}, nil, ":8080"))
		p.Apply(kobj.Ingress("e", "twin", 0, map[string]string{"auth-url": "svc://auth:8080/check", "ssl-redirect": "false"}, nil,
			[]kobj.Rule{{Host: "e.local", Paths: []kobj.Path{{Path: "/", Svc: "app", Port: "8080"}}}}, nil, nil))
	}
	// the protected hostname is also known as b.local: a request using the alias is the same request
	ann := map[string]string{"ssl-redirect": "false", "auth-external-placement": c.Placement, "server-alias": "b.local",
		"server-alias-regex": `^[^.]+\.alt\.local$`}
	if c.URL != "none" {
		ann["auth-url"] = urls[c.URL]
	}
	paths := []kobj.Path{{Path: "/app", Type: c.PType, Svc: "app", Port: "8080"}}
	switch c.OAuth {
	case "valid_with_path":
		ann["oauth"] = "oauth2_proxy"
		paths = append(paths, kobj.Path{Path: "/oauth2", Svc: "auth", Port: "8080"})
	case "valid_missing_path":
		ann["oauth"] = "oauth2_proxy"
	case "invalid_impl":
		ann["oauth"] = "nosuch_impl"
	}
	pub := "/pub"
	if c.Open == "before" {
		pub = "/aaa"
	}
	if c.OPrefix == "root" && c.OAuth != "none" {
		ann["oauth-uri-prefix"] = "/"
	}
	if c.Src == "service" {
		// path scoped keys declared on the Service instead of the Ingress
		sann := map[string]string{}
		for _, k := range []string{"auth-url", "oauth", "oauth-uri-prefix", "auth-external-placement"} {
			if v, ok := ann[k]; ok {
				sann[k] = v
				delete(ann, k)
			}
		}
		p.Apply(kobj.Service("d", "app", sann, ":8080:8080"))
	}
	p.Apply(kobj.Ingress("d", "prot", 1, ann, nil, []kobj.Rule{{Host: "a.local", Paths: paths}}, nil, nil))
	pubann := map[string]string{"ssl-redirect": "false"}
	pubCreated := 2
	if c.Elder == "backend" || c.Elder == "frontend" {
		pubann["auth-external-placement"] = c.Elder
		pubCreated = 0
	}
	if c.Cors {
		pubann["cors-enable"] = "true"
	}
	if c.PubAuth {
		pubann["auth-url"] = urls["http_ok"]
	}
	p.Apply(kobj.Ingress("d", "pub", pubCreated, pubann, nil,
		[]kobj.Rule{{Host: "a.local", Paths: []kobj.Path{{Path: pub, Svc: "app", Port: "8080"}}}}, nil, nil))
	if _, err := p.ReconcilePending(false); err != nil {
		return r, err
	}
	protected := c.URL != "none" || c.OAuth != "none"
	r.Rules = []rule{
		{ID: "app", P: cfgnf.Chars("/app"), Ty: c.PType, Protected: protected},
		{ID: "pub", P: cfgnf.Chars(pub), Ty: "begin", Protected: c.PubAuth},
	}
	for _, q := range []string{"/app", "/app/x", "/appx", "/App", pub, pub + "/x", "/other"} {
		r.Reqs = append(r.Reqs, cfgnf.Chars(q))
	}
	raw, err := cfgnf.Load(w.Opt.CfgDir(), w.Opt.Dir)
	if err != nil {
		return r, err
	}
	r.Front = raw.AuthSteps("frontend", "_front_http")
	r.Backend = raw.BackendNF("d_app_8080")
	if r.Backend == nil {
		return r, fmt.Errorf("backend d_app_8080 not found")
	}
	raw.ResolveAuthTargets(r.Front)
	raw.ResolveAuthTargets(r.Backend.Auth)
	return r, nil
}

func main() {
	in := flag.String("in", "", "cases (json)")
	outf := flag.String("out", "", "ndjson")
	work := flag.String("work", "", "scratch")
	flag.Parse()
	world.Chdir()
	data, err := os.ReadFile(*in)
	if err != nil {
		fmt.Fprintln(os.Stderr, err)
		os.Exit(2)
	}
	var cases []cs
	if err := json.Unmarshal(data, &cases); err != nil {
		fmt.Fprintln(os.Stderr, err)
		os.Exit(2)
	}
	recs := make([]rec, len(cases))
	errs := make([]error, len(cases))
	var wg sync.WaitGroup
	sem := make(chan struct{}, 16)
	for i := range cases {
		wg.Add(1)
		sem <- struct{}{}
		go func(i int) {
			defer wg.Done()
			defer func() { <-sem }()
			recs[i], errs[i] = runCase(*work, i, cases[i])
		}(i)
	}
	wg.Wait()
	f, _ := os.Create(*outf)
	defer f.Close()
	enc := json.NewEncoder(f)
	enc.SetEscapeHTML(false)
	for i := range cases {
		if errs[i] != nil {
			fmt.Fprintln(os.Stderr, errs[i])
			os.Exit(2)
		}
		_ = enc.Encode(recs[i])
	}
	fmt.Printf("{\"cases\":%d}\n", len(cases))
}
