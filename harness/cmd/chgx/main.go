// chgx replays the call sequences proposed by TLC from spec/BackendSet.tla on the real container of backends
// (pkg/haproxy/types) and records its observable state after every call for spec/TraceBackendSet.tla.
package main

import (
	"encoding/json"
	"flag"
	"fmt"
	"os"
	"sort"

	hatypes "github.com/jcmoraisjr/haproxy-ingress/pkg/haproxy/types"
)

type call struct {
	Op string `json:"op"`
	ID string `json:"id,omitempty"`
	V  int    `json:"v,omitempty"`
}

var ids = []string{"b1", "b2", "b3", "b4"}

const shards = 3

func bid(id string) string { return "d_" + id + "_8080" }

func ver(b *hatypes.Backend) int {
	var v int
	fmt.Sscanf(b.BalanceAlgorithm, "v%d", &v)
	return v
}

func state(bs *hatypes.Backends) (items map[string]int, add []string, del map[string]int, changed []int) {
	items, del = map[string]int{}, map[string]int{}
	add = []string{}
	for _, id := range ids {
		items[id], del[id] = 0, 0
		if b, ok := bs.Items()[bid(id)]; ok {
			items[id] = ver(b)
		}
		if _, ok := bs.ItemsAdd()[bid(id)]; ok {
			add = append(add, id)
		}
		if b, ok := bs.ItemsDel()[bid(id)]; ok {
			del[id] = ver(b)
		}
	}
	sort.Strings(add)
	return items, add, del, bs.ChangedShards()
}

func main() {
	in := flag.String("in", "", "call sequences (json)")
	outf := flag.String("out", "", "ndjson")
	flag.Parse()
	data, err := os.ReadFile(*in)
	if err != nil {
		fmt.Fprintln(os.Stderr, err)
		os.Exit(2)
	}
	var seqs [][]call
	if err := json.Unmarshal(data, &seqs); err != nil {
		fmt.Fprintln(os.Stderr, err)
		os.Exit(2)
	}
	f, _ := os.Create(*outf)
	defer f.Close()
	enc := json.NewEncoder(f)
	// the shard of an id: the one flagged when it is the only backend of a fresh container
	shardOf := map[string]int{}
	for _, id := range ids {
		bs := hatypes.CreateBackends(shards)
		bs.AcquireBackend("d", id, "8080")
		shardOf[id] = bs.ChangedShards()[0]
	}
	_ = enc.Encode(map[string]interface{}{"op": "header", "shards": shardOf})
	for i, seq := range seqs {
		bs := hatypes.CreateBackends(shards)
		sid := fmt.Sprintf("q%d", i)
		_ = enc.Encode(map[string]interface{}{"op": "reset", "seq": sid})
		for n, c := range seq {
			switch c.Op {
			case "acquire":
				if bs.FindBackend("d", c.ID, "8080") == nil {
					b := bs.AcquireBackend("d", c.ID, "8080")
					b.BalanceAlgorithm = fmt.Sprintf("v%d", c.V)
				} else {
					bs.AcquireBackend("d", c.ID, "8080")
				}
			case "remove":
				bs.RemoveAll([]string{bid(c.ID)})
			case "shrink":
				bs.Shrink()
			case "commit":
				bs.Commit()
			case "clear":
				bs.Clear()
			}
			items, add, del, changed := state(bs)
			_ = enc.Encode(map[string]interface{}{"op": c.Op, "seq": sid, "n": n, "id": c.ID, "v": c.V, "items": items, "add": add, "del": del, "changed": changed})
		}
	}
	fmt.Printf("{\"sequences\":%d}\n", len(seqs))
}
