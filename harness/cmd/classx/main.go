// classx runs the class decision table (rows and transitions enumerated by TLC from spec/ClassSelect.tla) through the
// real cache facade (IsValidIngress, GetIngressList), the real watchers and the whole pipeline.
package main

import (
	"encoding/json"
	"flag"
	"fmt"
	"os"
	"strings"
	"sync"

	networking "k8s.io/api/networking/v1"

	"verifharness/cfgnf"
	"verifharness/kobj"
	"verifharness/pipeline"
	"verifharness/world"
)

type row struct {
	Ann  string `json:"ann"`
	Cls  string `json:"cls"`
	WW   bool   `json:"ww"`
	Prec bool   `json:"prec"`
}

type trans struct {
	From row `json:"from"`
	To   row `json:"to"`
}

type rec struct {
	ID              string `json:"id"`
	Kind            string `json:"kind"` // ingress: the Ingress object changes; class: only the IngressClass object changes
	From            row    `json:"from"`
	To              row    `json:"to"`
	ValidFrom       bool   `json:"validfrom"`
	ValidTo         bool   `json:"validto"`
	Listed          bool   `json:"listed"`
	FreshConfigured bool   `json:"freshconfigured"`
	Configured      bool   `json:"configured"`
	Delivery        string `json:"delivery"`
	ClassChanged    bool   `json:"classchanged"` // the IngressClass object changed in this transition
}

const className = "cls1"

func ingressOf(r row) *networking.Ingress {
	var cls *string
	if r.Cls != "absent" {
		c := className
		cls = &c
	}
	ing := kobj.Ingress("d", "i1", 1, nil, cls, []kobj.Rule{{Host: "sel.local", Paths: []kobj.Path{{Path: "/", Svc: "app", Port: "8080"}}}}, nil, nil)
	switch r.Ann {
	case "ours":
		ing.Annotations["kubernetes.io/ingress.class"] = "haproxy"
	case "foreign":
		ing.Annotations["kubernetes.io/ingress.class"] = "nginx"
	case "empty":
		ing.Annotations["kubernetes.io/ingress.class"] = ""
	}
	return ing
}

// classObject applies the IngressClass object that makes ingressClassName `cls1` ours / foreign / dangling.
func applyClass(p *pipeline.Pipeline, cls string) {
	switch cls {
	case "ours":
		p.Apply(kobj.IngressClass(className, pipeline.ControllerName, nil))
	case "foreign":
		p.Apply(kobj.IngressClass(className, "example.com/other", nil))
	default:
		p.Delete(kobj.IngressClass(className, "", nil))
	}
}

func configured(w *world.World) (bool, error) {
	raw, err := cfgnf.Load(w.Opt.CfgDir(), w.Opt.Dir)
	if err != nil {
		return false, err
	}
	for _, r := range raw.Routes(false) {
		if r.H == "sel.local" {
			return true, nil
		}
	}
	return false, nil
}

func runOne(base string, i int, t trans) (rec, error) {
	r := rec{ID: fmt.Sprintf("t%d", i), From: t.From, To: t.To, Kind: "ingress"}
	opt := pipeline.Options{WatchWithoutClass: t.To.WW, ClassPrecedence: t.To.Prec}
	w, err := world.New(base, nil, opt)
	if err != nil {
		return r, err
	}
	defer w.Close()
	p := w.P
	p.Apply(kobj.Service("d", "app", nil, ":8080:8080"))
	p.Apply(kobj.Endpoints("d", "app", []string{"10.1.0.1:p"}, nil, ":8080"))
	// another, always selected, ingress keeps the controller busy with real content
	other := kobj.Ingress("d", "other", 0, nil, nil, []kobj.Rule{{Host: "other.local", Paths: []kobj.Path{{Path: "/", Svc: "app", Port: "8080"}}}}, nil, nil)
	other.Annotations["kubernetes.io/ingress.class"] = "haproxy"
	p.Apply(other)
	applyClass(p, t.From.Cls)
	from := ingressOf(t.From)
	p.Apply(from)
	if _, err := p.ReconcilePending(false); err != nil {
		return r, err
	}
	val := p.Svc.GetIsValidResource()
	r.ValidFrom = val.IsValidIngress(from)
	// the transition
	sameIngress := t.From.Ann == t.To.Ann && (t.From.Cls == "absent") == (t.To.Cls == "absent")
	if sameIngress && t.From.Cls != t.To.Cls {
		r.Kind = "class"
	}
	objOf := func(c string) string {
		if c == "ours" || c == "foreign" {
			return c
		}
		return "none"
	}
	r.ClassChanged = objOf(t.From.Cls) != objOf(t.To.Cls)
	applyClass(p, t.To.Cls)
	to := ingressOf(t.To)
	if !sameIngress {
		p.Apply(to)
	}
	batch := p.W.Swap()
	name := "d/i1"
	has := func(l []*networking.Ingress) bool {
		for _, x := range l {
			if x.Namespace+"/"+x.Name == name {
				return true
			}
		}
		return false
	}
	switch {
	case has(batch.IngressesAdd):
		r.Delivery = "add"
	case has(batch.IngressesUpd):
		r.Delivery = "upd"
	case has(batch.IngressesDel):
		r.Delivery = "del"
	default:
		r.Delivery = "ignored"
	}
	if t.From == t.To {
		r.Kind = "self"
		r.Delivery = "none"
	}
	// hand the batch to the reconciliation exactly as Reconcile does
	full := p.Pending[true] > 0
	batch.NeedFullSync = full
	p.Pending = map[bool]int{}
	if err := p.Svc.ReconcileIngress(p.Ctx, batch); err != nil {
		return r, err
	}
	r.ValidTo = val.IsValidIngress(to)
	list, err := p.Svc.VerifCache().GetIngressList()
	if err != nil {
		return r, err
	}
	r.Listed = has(list)
	if r.Configured, err = configured(w); err != nil {
		return r, err
	}
	fw, err := world.New(base, w.Cli, opt)
	if err != nil {
		return r, err
	}
	defer fw.Close()
	if err := fw.P.Start(nil); err != nil {
		return r, err
	}
	r.FreshConfigured, err = configured(fw)
	return r, err
}

// runBatch applies the creation of the Ingress (row from) and its change (row to) within one batch.
func runBatch(base string, i int, t trans) (rec, error) {
	r := rec{ID: fmt.Sprintf("b%d", i), From: t.From, To: t.To, Kind: "batch", Delivery: "none"}
	opt := pipeline.Options{WatchWithoutClass: t.To.WW, ClassPrecedence: t.To.Prec}
	w, err := world.New(base, nil, opt)
	if err != nil {
		return r, err
	}
	defer w.Close()
	p := w.P
	p.Apply(kobj.Service("d", "app", nil, ":8080:8080"))
	p.Apply(kobj.Endpoints("d", "app", []string{"10.1.0.1:p"}, nil, ":8080"))
	other := kobj.Ingress("d", "other", 0, nil, nil, []kobj.Rule{{Host: "other.local", Paths: []kobj.Path{{Path: "/", Svc: "app", Port: "8080"}}}}, nil, nil)
	other.Annotations["kubernetes.io/ingress.class"] = "haproxy"
	p.Apply(other)
	applyClass(p, t.From.Cls)
	if _, err := p.ReconcilePending(false); err != nil {
		return r, err
	}
	val := p.Svc.GetIsValidResource()
	from, to := ingressOf(t.From), ingressOf(t.To)
	p.Apply(from)
	r.ValidFrom = val.IsValidIngress(from)
	applyClass(p, t.To.Cls)
	p.Apply(to)
	r.ClassChanged = t.From.Cls != t.To.Cls
	if _, err := p.ReconcilePending(false); err != nil {
		return r, err
	}
	r.ValidTo = val.IsValidIngress(to)
	list, err := p.Svc.VerifCache().GetIngressList()
	if err != nil {
		return r, err
	}
	for _, x := range list {
		if x.Namespace+"/"+x.Name == "d/i1" {
			r.Listed = true
		}
	}
	if r.Configured, err = configured(w); err != nil {
		return r, err
	}
	r.FreshConfigured = r.Listed // not re-run here: the fresh controller is covered by the single-step record
	return r, nil
}

func main() {
	in := flag.String("in", "", "transitions (json)")
	outf := flag.String("out", "", "ndjson")
	work := flag.String("work", "", "scratch")
	flag.Parse()
	world.Chdir()
	data, err := os.ReadFile(*in)
	if err != nil {
		fmt.Fprintln(os.Stderr, err)
		os.Exit(2)
	}
	var ts []trans
	if err := json.Unmarshal(data, &ts); err != nil {
		fmt.Fprintln(os.Stderr, err)
		os.Exit(2)
	}
	recs := make([]rec, 2*len(ts))
	errs := make([]error, 2*len(ts))
	var wg sync.WaitGroup
	sem := make(chan struct{}, 16)
	for i := range ts {
		wg.Add(1)
		sem <- struct{}{}
		go func(i int) {
			defer wg.Done()
			defer func() { <-sem }()
			recs[i], errs[i] = runOne(*work, i, ts[i])
			recs[len(ts)+i], errs[len(ts)+i] = runBatch(*work, i, ts[i])
		}(i)
	}
	wg.Wait()
	f, _ := os.Create(*outf)
	defer f.Close()
	enc := json.NewEncoder(f)
	for i := range recs {
		if errs[i] != nil {
			fmt.Fprintln(os.Stderr, strings.TrimSpace(errs[i].Error()))
			os.Exit(2)
		}
		_ = enc.Encode(recs[i])
	}
	fmt.Printf("{\"transitions\":%d}\n", len(recs))
}
