// ctl runs histories of batched Kubernetes changes through the real controller pipeline and records,
// at every quiescent point, the normal form of what the incremental controller left on disk, the normal
// form(s) a freshly started controller produces from the same cluster state, loader facts, and the
// running-vs-disk tables of the simulated HAProxy. Judging is done by TLC (spec/TraceController.tla).
package main

import (
	"encoding/json"
	"flag"
	"fmt"
	"math/rand"
	"os"
	"path/filepath"
	"regexp"
	"sort"
	"strings"
	"sync"
	"time"

	api "k8s.io/api/core/v1"
	"sigs.k8s.io/controller-runtime/pkg/client"

	"verifharness/cfgnf"
	"verifharness/hasim"
	"verifharness/hist"
	"verifharness/pipeline"
	"verifharness/world"
)

type stateEv struct {
	Tr      string       `json:"tr"`
	Ev      string       `json:"ev"`
	Step    int          `json:"step"`
	Inc     string       `json:"inc"`     // digest of the incremental controller's normal form
	Fresh   []string     `json:"fresh"`   // digests of fresh controllers (list/event permutations)
	IncX    string       `json:"incx"`    // same without pruning unreachable auth-proxy leftovers (C05)
	FreshX  []string     `json:"freshx"`  //
	XDiff   []string     `json:"xdiff"`   // exact difference between inc and fresh[0]
	Dups    []string     `json:"dups"`    // sections defined more than once in the files of the incremental controller
	Slots   []string     `json:"slots"`   // backends whose server lines on disk are not the endpoints (slots) of the in-memory model
	Diff    []string     `json:"diff"`    // entries differing between inc and fresh[0] (report only)
	FDiff   []string     `json:"fdiff"`   // entries differing among fresh controllers
	Err     bool         `json:"err"`     // the reconciliation of this step reported an error
	Retried int          `json:"retried"` // retries run after an error
	Reloads int          `json:"reloads"`
	Ncmd    int          `json:"ncmd"`
	RunEq   bool         `json:"runeq"` // running table == table loaded from disk
	Facts   *cfgnf.Facts `json:"facts,omitempty"`
	FFacts  *cfgnf.Facts `json:"ffacts,omitempty"`
	Ops     []string     `json:"ops"`
	Faulted bool         `json:"faulted"`
	Failed  bool         `json:"failed"` // the first reconciliation of the step returned an error
	Core    bool         `json:"core"`   // the cluster is within the vocabulary of spec/Controller.tla
	Cluster any          `json:"cluster,omitempty"`
	Routing *routing     `json:"routing,omitempty"` // frontends and backends of the incremental controller, for Routing!Route
	Model   *model       `json:"model,omitempty"`   // routing tables read from the incremental controller's files
	FModel  *model       `json:"fmodel,omitempty"`  // same for the first fresh controller
}

type backR struct {
	S   string   `json:"s"`
	Eps []string `json:"eps"`
	Dr  []string `json:"dr"`
}

type crtLine struct {
	C       string     `json:"c"`   // secret name ("default" for the default certificate)
	Cur     bool       `json:"cur"` // the file holds the current content of that secret
	Dflt    bool       `json:"dflt"`
	Filters [][]string `json:"filters"`
}

type routing struct {
	CrtList    []crtLine       `json:"crtlist"`
	HTTP       *cfgnf.Frontend `json:"http"`
	HTTPS      *cfgnf.Frontend `json:"https"`
	Backs      []backR         `json:"backs"`
	DefaultSvc string          `json:"defaultsvc"`
	Drain      bool            `json:"drain"`
}

var withRouting bool

func lastOctet(a string) string {
	ip := a[:strings.LastIndex(a, ":")]
	return ip[strings.LastIndex(ip, ".")+1:]
}

func extractRouting(w *world.World, h *hist.History, drain bool) (*routing, error) {
	raw, err := cfgnf.Load(w.Opt.CfgDir(), w.Opt.Dir)
	if err != nil {
		return nil, err
	}
	r := &routing{Backs: []backR{}, DefaultSvc: h.Opt.DefaultSvc, Drain: drain, CrtList: []crtLine{}}
	for path, ls := range raw.Files {
		if filepath.Base(path) != "_front_bind_crt.list" {
			continue
		}
		for i, l := range ls {
			f := strings.Fields(l)
			if len(f) == 0 {
				continue
			}
			cl := crtLine{Filters: [][]string{}}
			base := strings.TrimSuffix(filepath.Base(f[0]), ".pem")
			cl.C = strings.TrimPrefix(base, "d_")
			if i == 0 || (len(f) > 1 && f[1] == "!*") {
				cl.Dflt, cl.C, cl.Cur = true, "default", true
			} else {
				sec := &api.Secret{}
				if err := w.Cli.Get(w.P.Ctx, client.ObjectKey{Namespace: "d", Name: cl.C}, sec); err == nil {
					if fb, err := os.ReadFile(f[0]); err == nil {
						cl.Cur = firstPEMBlock(fb) != "" && firstPEMBlock(fb) == firstPEMBlock(sec.Data["tls.crt"])
					}
				}
				for _, flt := range f[1:] {
					if strings.HasPrefix(flt, "[") {
						continue
					}
					cl.Filters = append(cl.Filters, cfgnf.Chars(flt))
				}
			}
			r.CrtList = append(r.CrtList, cl)
		}
	}
	r.HTTP = raw.FrontendNF("_front_http")
	r.HTTPS = raw.FrontendNF("_front_https")
	if r.HTTPS == nil {
		r.HTTPS = raw.FrontendNF("_front_https__local")
	}
	if r.HTTP == nil || r.HTTPS == nil {
		return nil, fmt.Errorf("frontends not found")
	}
	defName := ""
	if h.Opt.DefaultSvc != "" {
		defName = strings.Replace(h.Opt.DefaultSvc, "/", "_", 1) + "_8080"
	}
	rename := func(name string) string {
		if sm := reSvcBack.FindStringSubmatch(name); sm != nil {
			return sm[1]
		}
		return name
	}
	for _, f := range []*cfgnf.Frontend{r.HTTP, r.HTTPS} {
		for i := range f.Steps {
			st := &f.Steps[i]
			if st.Kind == "default" && st.Target == defName && defName != "" {
				st.Target = "_default"
			} else {
				st.Target = rename(st.Target)
			}
			for j := range st.Entries {
				st.Entries[j].V = rename(st.Entries[j].V)
			}
		}
	}
	for _, b := range raw.Backs() {
		e := backR{S: rename(b.S), Eps: []string{}, Dr: []string{}}
		for _, a := range b.Eps {
			e.Eps = append(e.Eps, lastOctet(a))
		}
		for _, a := range b.Dr {
			e.Dr = append(e.Dr, lastOctet(a))
		}
		r.Backs = append(r.Backs, e)
	}
	return r, nil
}

type crtEnt struct {
	H   string `json:"h"`
	C   string `json:"c"`   // secret name
	Cur bool   `json:"cur"` // the file holds the current content of the secret
}

type backEnt struct {
	S   string   `json:"s"`
	Eps []string `json:"eps"`
}

type model struct {
	Routes []cfgnf.Route `json:"routes"`
	Crts   []crtEnt      `json:"crts"`
	Backs  []backEnt     `json:"backs"`
}

var reSvcBack = regexp.MustCompile(`^d_(\w+)_8080$`)

func firstPEMBlock(b []byte) string {
	s := string(b)
	i := strings.Index(s, "-----END CERTIFICATE-----")
	if i < 0 {
		return ""
	}
	return strings.Join(strings.Fields(s[:i]), "")
}

// extractModel reads the routing tables from the files of a controller, in the vocabulary of the spec.
func extractModel(w *world.World) (*model, error) {
	raw, err := cfgnf.Load(w.Opt.CfgDir(), w.Opt.Dir)
	if err != nil {
		return nil, err
	}
	m := &model{Routes: []cfgnf.Route{}, Crts: []crtEnt{}, Backs: []backEnt{}}
	for _, r := range raw.Routes(false) {
		if sm := reSvcBack.FindStringSubmatch(r.S); sm != nil {
			r.S = sm[1]
		}
		m.Routes = append(m.Routes, r)
	}
	for _, c := range raw.CrtList() {
		base := strings.TrimSuffix(filepath.Base(c.File), ".pem")
		name := strings.TrimPrefix(base, "d_")
		e := crtEnt{H: c.H, C: name}
		sec := &api.Secret{}
		if err := w.Cli.Get(w.P.Ctx, client.ObjectKey{Namespace: "d", Name: name}, sec); err == nil {
			if fb, err := os.ReadFile(c.File); err == nil {
				e.Cur = firstPEMBlock(fb) != "" && firstPEMBlock(fb) == firstPEMBlock(sec.Data["tls.crt"])
			}
		}
		m.Crts = append(m.Crts, e)
	}
	for _, b := range raw.Backs() {
		sm := reSvcBack.FindStringSubmatch(b.S)
		if sm == nil {
			continue
		}
		e := backEnt{S: sm[1], Eps: []string{}}
		for _, a := range b.Eps {
			ip := a[:strings.LastIndex(a, ":")]
			e.Eps = append(e.Eps, ip[strings.LastIndex(ip, ".")+1:])
		}
		m.Backs = append(m.Backs, e)
	}
	return m, nil
}

func nfDigest(nf *cfgnf.NF) string {
	d := nf.Digests()
	keys := make([]string, 0, len(d))
	for k := range d {
		keys = append(keys, k)
	}
	sort.Strings(keys)
	var sb strings.Builder
	for _, k := range keys {
		sb.WriteString(k + "=" + d[k] + ";")
	}
	sb.WriteString("dups=" + strings.Join(nf.Dups, ",") + ";missing=" + strings.Join(nf.Missing, ","))
	return cfgnf.Digest(sb.String())
}

func options(h *hist.History) pipeline.Options {
	return pipeline.Options{
		Shards:              h.Opt.Shards,
		DefaultService:      h.Opt.DefaultSvc,
		DefaultCrtSecret:    h.Opt.DefaultCrt,
		WatchWithoutClass:   h.Opt.WatchWithoutClass,
		ClassPrecedence:     h.Opt.ClassPrecedence,
		AllowCrossNamespace: h.Opt.AllowCrossNS,
		DisableKeywords:     h.Opt.DisableKeywords,
		Gateway:             h.Opt.Gateway,
		ConfigMapName:       "ingress/cfg",
		TCPConfigMapName:    "ingress/tcp",
		PodNamespace:        "ingress",
		ReloadInterval:      time.Duration(h.Opt.ReloadInterval) * time.Millisecond,
	}
}

func observe(w *world.World) (*cfgnf.NF, *cfgnf.Facts, error) {
	nf, _, facts, err := observeX(w)
	return nf, facts, err
}

// observeX returns the behavioural normal form (unreachable auth-proxy leftovers pruned), the exact one and the facts.
func observeX(w *world.World) (*cfgnf.NF, *cfgnf.NF, *cfgnf.Facts, error) {
	raw, err := cfgnf.Load(w.Opt.CfgDir(), w.Opt.Dir)
	if err != nil {
		return nil, nil, nil, err
	}
	return raw.PruneAuth().Canon(), raw.Canon(), raw.Facts(), nil
}

// slotsDiff compares the server slots of every backend of the in-memory model of the incremental controller with the server
// lines of its section on disk: name, address and the disabled flag, slot by slot (empty slots included).
func slotsDiff(w *world.World) ([]string, error) {
	raw, err := cfgnf.Load(w.Opt.CfgDir(), w.Opt.Dir)
	if err != nil {
		return nil, err
	}
	disk := map[string][]string{}
	for _, sec := range raw.Sections {
		if sec.Kind != "backend" {
			continue
		}
		for _, l := range sec.Lines {
			f := strings.Fields(l)
			if len(f) >= 3 && f[0] == "server" {
				e := f[1] + " " + f[2]
				if strings.Contains(" "+strings.Join(f[3:], " ")+" ", " disabled ") {
					e += " disabled"
				}
				disk[sec.Name] = append(disk[sec.Name], e)
			}
		}
	}
	res := []string{}
	for id, b := range w.P.Svc.VerifInstance().Config().Backends().Items() {
		if b.Resolver != "" {
			continue // server-template
		}
		mem := []string{}
		for _, e := range b.Endpoints {
			x := e.Name + " " + e.Target
			if !e.Enabled {
				x += " disabled"
			}
			mem = append(mem, x)
		}
		d := append([]string{}, disk[id]...)
		sort.Strings(mem)
		sort.Strings(d)
		if strings.Join(mem, "|") != strings.Join(d, "|") {
			res = append(res, fmt.Sprintf("%s: model [%s] disk [%s]", id, strings.Join(mem, ", "), strings.Join(d, ", ")))
		}
	}
	sort.Strings(res)
	return res, nil
}

var keepDir string

func keepCopy(w *world.World, label string) {
	if keepDir == "" {
		return
	}
	dst := filepath.Join(keepDir, label)
	os.RemoveAll(dst)
	os.MkdirAll(dst, 0o755)
	var sb strings.Builder
	cfg := w.P.Svc.VerifInstance().Config()
	for id, b := range cfg.Backends().Items() {
		fmt.Fprintf(&sb, "backend %s\n", id)
		for _, p := range b.Paths {
			fmt.Fprintf(&sb, "  path %s %s%s hsts=%v sslredir=%v host=%v\n", p.ID, p.Link.Hostname(), p.Link.Key(), p.HSTS.Enabled, p.SSLRedirect, p.Host != nil)
		}
		for _, e := range b.Endpoints {
			fmt.Fprintf(&sb, "  ep %s %s en=%v w=%d\n", e.Name, e.Target, e.Enabled, e.Weight)
		}
	}
	for name, h := range cfg.Hosts().Items() {
		fmt.Fprintf(&sb, "host %s tls=%s\n", name, h.TLS.TLSFilename)
		for _, p := range h.Paths {
			fmt.Fprintf(&sb, "  path %s %v -> %s\n", p.Path(), p.Match(), p.Backend.ID)
		}
	}
	os.WriteFile(filepath.Join(dst, "model.txt"), []byte(sb.String()), 0o644)
	for _, d := range []string{w.Opt.CfgDir(), w.Opt.MapsDir()} {
		files, _ := filepath.Glob(filepath.Join(d, "*"))
		for _, f := range files {
			if b, err := os.ReadFile(f); err == nil {
				os.WriteFile(filepath.Join(dst, filepath.Base(f)), b, 0o644)
			}
		}
	}
}

func freshNF(base string, cli client.Client, h *hist.History, rnd *rand.Rand, withModel bool) (*cfgnf.NF, *cfgnf.NF, *cfgnf.Facts, *model, error) {
	c := cli
	if rnd != nil {
		c = &pipeline.ShuffleClient{Client: cli, Rnd: rnd}
	}
	w, err := world.New(base, c, options(h))
	if err != nil {
		return nil, nil, nil, nil, err
	}
	defer w.Close()
	if err := w.P.Start(rnd); err != nil {
		return nil, nil, nil, nil, fmt.Errorf("fresh controller: %w", err)
	}
	if rnd == nil {
		keepCopy(w, h.ID+"-fresh")
	}
	var m *model
	if withModel {
		if m, err = extractModel(w); err != nil {
			return nil, nil, nil, nil, err
		}
	}
	nf, nfx, facts, err := observeX(w)
	return nf, nfx, facts, m, err
}

type plan struct {
	fileGlob string
	times    int
}

// injectFileFault replaces the target of a file write by a directory (EISDIR) and returns the undo.
func injectFileFault(w *world.World, glob string) (func(), bool) {
	var targets []string
	for _, d := range []string{w.Opt.CfgDir(), w.Opt.MapsDir()} {
		m, _ := filepath.Glob(filepath.Join(d, glob))
		targets = append(targets, m...)
	}
	if len(targets) == 0 && !strings.ContainsAny(glob, "*?[") {
		d := w.Opt.MapsDir()
		if strings.HasSuffix(glob, ".cfg") {
			d = w.Opt.CfgDir()
		}
		targets = []string{filepath.Join(d, glob)}
	}
	if len(targets) == 0 {
		return func() {}, false
	}
	type saved struct {
		path string
		data []byte
		had  bool
	}
	var sv []saved
	for _, t := range targets {
		b, err := os.ReadFile(t)
		sv = append(sv, saved{t, b, err == nil})
		os.Remove(t)
		os.Mkdir(t, 0o755)
		if err == nil {
			// readers (the simulated HAProxy, the observer) keep seeing the content the failed write could not replace
			os.WriteFile(filepath.Join(t, ".orig"), b, 0o644)
		}
	}
	return func() {
		for _, s := range sv {
			os.RemoveAll(s.path)
			if s.had {
				os.WriteFile(s.path, s.data, 0o644)
			}
		}
	}, true
}

func runHistory(base string, h *hist.History, certs *hist.Certs, nfresh int, facts bool, seed int64) ([]any, error) {
	cli := pipeline.NewClient()
	w, err := world.New(base, cli, options(h))
	if err != nil {
		return nil, err
	}
	defer w.Close()
	p := w.P
	var evs []any
	evs = append(evs, map[string]any{"tr": h.ID, "ev": "Reset", "shards": h.Opt.Shards, "steps": len(h.Steps)})
	// the global ConfigMap exists from the start (external mode needs external-has-lua for auth-url)
	if _, _, err := p.Apply(mustObj(&hist.Op{Kind: "cm", Name: "ingress/cfg", Data: map[string]string{"external-has-lua": "true"}}, certs)); err != nil {
		return nil, err
	}
	for si, st := range h.Steps {
		ops := st.Ops
		if st.Shuffle != 0 {
			ops = append([]hist.Op{}, ops...)
			// only reorder events of different objects: the events of one object arrive in order (the positions the
			// permutation gives to the ops of one object are filled with them in their original order)
			r := rand.New(rand.NewSource(st.Shuffle))
			idx := r.Perm(len(ops))
			slots := map[string][]int{} // object -> positions in the permuted list
			for pos, j := range idx {
				k := ops[j].Kind + "|" + ops[j].Name
				slots[k] = append(slots[k], pos)
			}
			perm := make([]hist.Op, len(ops))
			next := map[string]int{}
			for j := range ops { // original order
				k := ops[j].Kind + "|" + ops[j].Name
				pos := slots[k]
				sorted := append([]int{}, pos...)
				sort.Ints(sorted)
				perm[sorted[next[k]]] = ops[j]
				next[k]++
			}
			ops = perm
		}
		labels := []string{}
		for i := range ops {
			op := &ops[i]
			lbl := op.Kind + ":" + op.Name
			if op.Del {
				lbl += ":del"
			} else if op.Tmpl != "" {
				lbl += ":" + op.Tmpl
			}
			labels = append(labels, lbl)
			obj, err := op.Object(certs)
			if err != nil {
				return nil, err
			}
			if op.Del {
				if _, err := p.Delete(obj); err != nil {
					// deleting something that does not exist is a no-op of the history
					continue
				}
			} else if _, _, err := p.ApplyTouch(obj, op.Touch); err != nil {
				return nil, fmt.Errorf("step %d op %s: %w", si, lbl, err)
			}
		}
		if st.NoSync {
			continue
		}
		// faults of this step
		undo := []func(){}
		cmdFaults := map[int]string{}
		failReloads, dropReloadReq := 0, 0
		faulted := false
		for _, f := range st.Faults {
			switch {
			case strings.HasPrefix(f.Point, "file:"):
				var u func()
				var ok bool
				w.Sim.Freeze(func() { u, ok = injectFileFault(w, f.Point[5:]) })
				undo = append(undo, u)
				faulted = faulted || ok
			case strings.HasPrefix(f.Point, "cmd:"):
				var n int
				fmt.Sscanf(f.Point[4:], "%d", &n)
				cmdFaults[n] = f.Kind
				faulted = true
			case f.Point == "reload":
				failReloads = max(1, f.Times)
				faulted = true
			case f.Point == "reloadreq":
				dropReloadReq = max(1, f.Times)
				faulted = true
			}
		}
		w.Sim.SetPlan(cmdFaults, failReloads, dropReloadReq)
		r0, _, _ := w.Sim.Snapshot()
		if len(p.Pending) == 0 && len(st.Faults) == 0 && len(ops) > 0 {
			// every event of the batch was filtered by the predicates: nothing to reconcile
		}
		_, failedKinds, rerr := p.ReconcilePendingKinds(st.FullFirst)
		firstErr := rerr
		w.Sim.Freeze(func() {
			for _, u := range undo {
				u()
			}
		})
		retried := 0
		if rerr != nil {
			// the controller schedules its own retry (RequeueAfter): Reconcile again with the same kind of item
			// and whatever arrived meanwhile (here: nothing), this time without faults
			w.Sim.SetPlan(map[int]string{}, 0, 0)
			for retried < 3 && rerr != nil {
				retried++
				rerr = nil
				for _, k := range failedKinds {
					if _, e := p.Reconcile(k); e != nil {
						rerr = e
					}
				}
			}
		}
		if faulted && h.Opt.ReloadInterval > 0 {
			// failed reloads are retried by the reload queue after --reload-retry
			time.Sleep(400 * time.Millisecond)
		}
		if h.Opt.ReloadInterval > 0 {
			// let the reload queue run
			time.Sleep(time.Duration(h.Opt.ReloadInterval)*time.Millisecond + 30*time.Millisecond)
		}
		if h.Opt.ReloadInterval > 0 {
			// on a loaded machine the queued reload may run later than the interval: nothing else is going on, so the running
			// table can only change through that reload -- wait for it (bounded) before the state is recorded
			for k := 0; k < 600; k++ {
				run := w.Sim.RunningCopy()
				disk, derr := hasim.LoadRuntime(w.Opt.CfgDir())
				if derr != nil || run == nil {
					break
				}
				a, _ := json.Marshal(run.Project())
				b, _ := json.Marshal(disk.Project())
				ac, _ := json.Marshal(runCerts(run))
				bc, _ := json.Marshal(runCerts(disk))
				if string(a) == string(b) && string(ac) == string(bc) {
					break
				}
				time.Sleep(20 * time.Millisecond)
			}
		}
		r1, _, cmds := w.Sim.Snapshot()
		inc, incx, incFacts, err := observeX(w)
		if err != nil {
			return nil, err
		}
		keepCopy(w, h.ID+"-inc")
		ev := stateEv{Tr: h.ID, Ev: "State", Step: si, Inc: nfDigest(inc), Err: rerr != nil, Retried: retried,
			Reloads: r1 - r0, Ncmd: len(cmds), Ops: labels, Faulted: faulted, Failed: firstErr != nil, Diff: []string{}, FDiff: []string{}, Fresh: []string{},
			IncX: nfDigest(incx), FreshX: []string{}, XDiff: []string{}, Dups: append([]string{}, incx.Dups...)}
		if ev.Slots, err = slotsDiff(w); err != nil {
			return nil, err
		}
		run := w.Sim.RunningCopy()
		disk, err := hasim.LoadRuntime(w.Opt.CfgDir())
		if err != nil {
			return nil, err
		}
		rj, _ := json.Marshal(run.Project())
		dj, _ := json.Marshal(disk.Project())
		rc, _ := json.Marshal(runCerts(run))
		dc, _ := json.Marshal(runCerts(disk))
		ev.RunEq = string(rj) == string(dj) && string(rc) == string(dc)
		if facts {
			ev.Facts = incFacts
		}
		if len(st.Cluster) > 0 {
			ev.Core = true
			var cl any
			if err := json.Unmarshal(st.Cluster, &cl); err != nil {
				return nil, err
			}
			ev.Cluster = cl
			if ev.Model, err = extractModel(w); err != nil {
				return nil, err
			}
			if withRouting {
				drain := false
				cm := &api.ConfigMap{}
				if err := w.Cli.Get(w.P.Ctx, client.ObjectKey{Namespace: "ingress", Name: "cfg"}, cm); err == nil {
					drain = cm.Data["drain-support"] == "true"
				}
				if ev.Routing, err = extractRouting(w, h, drain); err != nil {
					return nil, err
				}
			}
		}
		var first *cfgnf.NF
		for k := 0; k < nfresh; k++ {
			var rnd *rand.Rand
			if k > 0 {
				rnd = rand.New(rand.NewSource(seed*1000 + int64(si)*10 + int64(k)))
			}
			fnf, fnfx, ffacts, fm, err := freshNF(base, cli, h, rnd, k == 0 && len(st.Cluster) > 0)
			if err != nil {
				return nil, err
			}
			ev.FreshX = append(ev.FreshX, nfDigest(fnfx))
			if k == 0 {
				ev.XDiff = append(ev.XDiff, cfgnf.Diff(incx, fnfx)...)
			}
			if k == 0 {
				ev.FModel = fm
			}
			ev.Fresh = append(ev.Fresh, nfDigest(fnf))
			if k == 0 {
				first = fnf
				ev.Diff = append(ev.Diff, cfgnf.Diff(inc, fnf)...)
				if facts {
					ev.FFacts = ffacts
				}
			} else if d := cfgnf.Diff(first, fnf); len(d) > 0 && len(ev.FDiff) == 0 {
				ev.FDiff = d
			}
		}
		evs = append(evs, ev)
	}
	return evs, nil
}

func runCerts(rt *hasim.Runtime) map[string]string {
	res := map[string]string{}
	if rt == nil {
		return res
	}
	for f, d := range rt.Certs {
		if strings.Contains(f, "_fake-") {
			continue
		}
		res[filepath.Base(f)] = d
	}
	return res
}

func mustObj(op *hist.Op, certs *hist.Certs) client.Object {
	o, err := op.Object(certs)
	if err != nil {
		panic(err)
	}
	return o
}

func main() {
	in := flag.String("in", "", "histories (json array)")
	out := flag.String("out", "", "trace (ndjson)")
	base := flag.String("work", "", "scratch directory")
	par := flag.Int("par", 16, "parallel histories")
	nfresh := flag.Int("fresh", 1, "fresh controllers per quiescent point (more than one: permuted list and event order)")
	facts := flag.Bool("facts", false, "record loader facts (C07)")
	seed := flag.Int64("seed", 1, "seed of the permutations")
	flag.BoolVar(&withRouting, "routing", false, "record the frontends and backends for request-level judgement (C03)")
	flag.StringVar(&keepDir, "keep", "", "keep the files of the last quiescent point of every history under this directory")
	flag.Parse()
	world.Chdir()
	data, err := os.ReadFile(*in)
	if err != nil {
		fmt.Fprintln(os.Stderr, err)
		os.Exit(2)
	}
	var hs []*hist.History
	if err := json.Unmarshal(data, &hs); err != nil {
		fmt.Fprintln(os.Stderr, err)
		os.Exit(2)
	}
	certs := hist.NewCerts()
	for _, id := range []string{"c1", "c2", "c3", "c1v2", "c2v2", "c3v2", "dflt", "dfltv2", "ca1", "ca2"} {
		certs.Get(id)
	}
	results := make([][]any, len(hs))
	errs := make([]error, len(hs))
	sem := make(chan struct{}, *par)
	var wg sync.WaitGroup
	for i := range hs {
		wg.Add(1)
		sem <- struct{}{}
		go func(i int) {
			defer wg.Done()
			defer func() { <-sem }()
			results[i], errs[i] = runHistory(*base, hs[i], certs, *nfresh, *facts, *seed)
		}(i)
	}
	wg.Wait()
	f, err := os.Create(*out)
	if err != nil {
		fmt.Fprintln(os.Stderr, err)
		os.Exit(2)
	}
	defer f.Close()
	enc := json.NewEncoder(f)
	enc.SetEscapeHTML(false)
	n := 0
	for i := range hs {
		if errs[i] != nil {
			fmt.Fprintf(os.Stderr, "history %s: %v\n", hs[i].ID, errs[i])
			os.Exit(2)
		}
		for _, e := range results[i] {
			_ = enc.Encode(e)
			n++
		}
	}
	fmt.Printf("{\"histories\":%d,\"events\":%d}\n", len(hs), n)
}
