// gwx applies the worlds proposed by TLC from spec/GatewayAdmission.tla (GatewayClass / Gateway / HTTPRoute / TCPRoute /
// Namespace / Service objects) to the real pipeline, step by step, and records what each written configuration routes:
// host/path rules, TCP ports and the weights on the server lines of the route backends.
package main

import (
	"encoding/json"
	"flag"
	"fmt"
	"math/rand"
	"os"
	"regexp"
	"sort"
	"strings"
	"sync"

	metav1 "k8s.io/apimachinery/pkg/apis/meta/v1"
	"sigs.k8s.io/controller-runtime/pkg/client"

	"verifharness/cfgnf"
	"verifharness/kobj"
	"verifharness/pipeline"
	"verifharness/world"
)

type listener struct {
	Proto string `json:"proto"`
	Host  string `json:"host"`
	Kinds string `json:"kinds"`
	From  string `json:"from"`
}

type ref struct {
	Name    string `json:"name"`
	Ns      string `json:"ns"`
	Section string `json:"section"`
	Kind    string `json:"kind"`
	Group   string `json:"group"`
}

type back struct {
	S int `json:"s"`
	W int `json:"w"`
}

type route struct {
	Kind      string `json:"kind"`
	Ns        string `json:"ns"`
	Refs      []ref  `json:"refs"`
	Hostnames int    `json:"hostnames"`
	Backs     []back `json:"backs"`
}

type wld struct {
	Class string            `json:"class"`
	Label map[string]string `json:"label"`
	L     []listener        `json:"l"`
	Rt    []route           `json:"rt"`
	Same  bool              `json:"samepath"`
}

type tcpObs struct {
	Port int    `json:"port"`
	S    string `json:"s"`
}

type backObs struct {
	S   string  `json:"s"`
	Grp [][]int `json:"grp"` // per backendRef, the weights written on its servers (-1: server missing)
	Xtr int     `json:"xtr"` // servers that belong to no backendRef
	Bal string  `json:"bal"` // balance algorithm of the backend
}

type obs struct {
	Routes []cfgnf.Route `json:"routes"`
	TCP    []tcpObs      `json:"tcp"`
	Backs  []backObs     `json:"backs"`
}

type rec struct {
	ID   string          `json:"id"`
	Step int             `json:"step"`
	W    json.RawMessage `json:"w"`
	Obs  obs             `json:"obs"`
	// Det: further runs of the same history, with the lists of the API in another order, wrote the same configuration
	Det     bool     `json:"det"`
	DetDiff []string `json:"detdiff"`
	nf      *cfgnf.NF
}

func nsIdx(ns string) int {
	if ns == "g" {
		return 1
	}
	return 2
}

func epAddr(ns string, svc, n int) string { return fmt.Sprintf("10.%d.%d.%d", nsIdx(ns), svc, n) }

func kindsOf(k string) []string {
	switch k {
	case "empty":
		return nil
	case "Both":
		return []string{"HTTPRoute", "TCPRoute"}
	case "Other":
		return []string{"GRPCRoute"}
	}
	return []string{k}
}

func mkListener(name string, port int, l listener, own string) kobj.Listener {
	kl := kobj.Listener{Name: name, Port: port, Protocol: l.Proto, Kinds: kindsOf(l.Kinds)}
	switch l.Kinds {
	case "CoreGroup":
		g := ""
		kl.Kinds, kl.KindGroup = []string{"HTTPRoute", "TCPRoute"}, &g
	case "GwGroup":
		g := "gateway.networking.k8s.io"
		kl.Kinds, kl.KindGroup = []string{"HTTPRoute", "TCPRoute"}, &g
	}
	expr := func(op metav1.LabelSelectorOperator) []metav1.LabelSelectorRequirement {
		return []metav1.LabelSelectorRequirement{{Key: "tier", Operator: op, Values: []string{"web"}}}
	}
	if l.Host == "own" {
		kl.Hostname = own
	}
	switch l.From {
	case "noallowed":
		kl.NoAllowed = true
	case "nofrom":
	case "Same", "All":
		kl.From = l.From
	case "SelWeb":
		kl.From, kl.Selector = "Selector", map[string]string{"tier": "web"}
	case "SelDb":
		kl.From, kl.Selector = "Selector", map[string]string{"tier": "db"}
	case "SelNil":
		kl.From, kl.SelNil = "Selector", true
	case "ExprInWeb":
		kl.From, kl.Exprs = "Selector", expr(metav1.LabelSelectorOpIn)
	case "ExprNotInWeb":
		kl.From, kl.Exprs = "Selector", expr(metav1.LabelSelectorOpNotIn)
	case "SelWebExprNotWeb":
		kl.From, kl.Selector, kl.Exprs = "Selector", map[string]string{"tier": "web"}, expr(metav1.LabelSelectorOpNotIn)
	}
	return kl
}

var rtNames = []string{"rtz", "rta"} // the older route has the greater name
var hostSets = [][]string{nil, {"h1.local"}, {"h1.local", "h2.local"}}

// objects a world consists of, keyed by kind/ns/name
func objects(w wld) (map[string]client.Object, []client.Object) {
	objs := map[string]client.Object{}
	var quiet []client.Object // kinds nobody watches
	add := func(o client.Object) {
		objs[fmt.Sprintf("%T/%s/%s", o, o.GetNamespace(), o.GetName())] = o
	}
	nsLabels := func(n string) map[string]string {
		if w.Label[n] == "none" {
			return nil // a namespace without any label
		}
		return map[string]string{"tier": w.Label[n]}
	}
	quiet = append(quiet, kobj.Namespace("g", nsLabels("g")), kobj.Namespace("r", nsLabels("r")))
	add(kobj.GatewayClass("haproxy", pipeline.ControllerName))
	add(kobj.GatewayClass("haproxy2", pipeline.ControllerName))
	add(kobj.GatewayClass("other", "example.io/some-controller"))
	class := map[string]string{"ours": "haproxy", "ours2": "haproxy2", "foreign": "other", "missing": "nosuch",
		"own3": "haproxy3", "gone3": "haproxy3", "alien3": "haproxy3"}[w.Class]
	switch w.Class {
	case "own3":
		add(kobj.GatewayClass("haproxy3", pipeline.ControllerName))
	case "alien3":
		add(kobj.GatewayClass("haproxy3", "example.io/some-controller"))
	}
	add(kobj.Gateway("g", "gw", class, []kobj.Listener{
		mkListener("L1", 7001, w.L[0], "l1.local"), mkListener("L2", 7002, w.L[1], "l2.local")}))
	open := listener{Host: "own", Kinds: "empty", From: "All"}
	f1, f2 := open, open
	f1.Proto, f2.Proto = "HTTP", "TCP"
	add(kobj.Gateway("g", "fgw", "other", []kobj.Listener{mkListener("L1", 7101, f1, "f1.local"), mkListener("L2", 7102, f2, "f2.local")}))
	for _, ns := range []string{"g", "r"} {
		// s8: a Service whose pods are not ready
		add(kobj.Service(ns, "s8", nil, ":8080:8080"))
		add(kobj.Endpoints(ns, "s8", nil, []string{epAddr(ns, 8, 1) + ":p"}, ":8080"))
		for s := 1; s <= 3; s++ {
			name := fmt.Sprintf("s%d", s)
			// conflicting backend scoped annotations: the first backendRef of a rule wins
			var sann map[string]string
			switch s {
			case 1:
				sann = map[string]string{"haproxy-ingress.github.io/balance-algorithm": "leastconn"}
			case 2:
				sann = map[string]string{"haproxy-ingress.github.io/balance-algorithm": "first"}
			}
			add(kobj.Service(ns, name, sann, ":8080:8080"))
			var eps []string
			for n := 1; n <= s; n++ {
				eps = append(eps, epAddr(ns, s, n)+":p")
			}
			add(kobj.Endpoints(ns, name, eps, nil, ":8080"))
		}
	}
	for k, rt := range w.Rt {
		if rt.Kind == "none" {
			continue
		}
		var refs []kobj.ParentRef
		for _, r := range rt.Refs {
			refs = append(refs, kobj.ParentRef{Name: r.Name, Namespace: r.Ns, Section: r.Section, Kind: r.Kind, Group: r.Group})
		}
		var backs []kobj.BackendRef
		for _, b := range rt.Backs {
			backs = append(backs, kobj.BackendRef{Svc: fmt.Sprintf("s%d", b.S), Port: 8080, Weight: b.W})
		}
		if rt.Kind == "HTTPRoute" {
			path := fmt.Sprintf("/p%d", k+1)
			if w.Same {
				path = "/p1"
			}
			add(kobj.HTTPRoute(rt.Ns, rtNames[k], k+1, refs, hostSets[rt.Hostnames], path, backs))
		} else {
			add(kobj.TCPRoute(rt.Ns, rtNames[k], k+1, refs, backs))
		}
	}
	return objs, quiet
}

var reTCPFront = regexp.MustCompile(`^_front_tcp_(\d+)$`)
var reBackend = regexp.MustCompile(`^\s*(?:default_backend|use_backend)\s+(\S+)`)

func observe(w *world.World, cur wld) (obs, error) {
	o := obs{Routes: []cfgnf.Route{}, TCP: []tcpObs{}, Backs: []backObs{}}
	raw, err := cfgnf.Load(w.Opt.CfgDir(), w.Opt.Dir)
	if err != nil {
		return o, err
	}
	o.Routes = raw.Routes(false)
	have := map[string]bool{}
	for _, s := range raw.Sections {
		if s.Kind == "backend" {
			have[s.Name] = true
		}
		m := reTCPFront.FindStringSubmatch(s.Name)
		if m == nil || (s.Kind != "frontend" && s.Kind != "listen") {
			continue
		}
		var port int
		fmt.Sscanf(m[1], "%d", &port)
		for _, l := range s.Lines {
			if bm := reBackend.FindStringSubmatch(l); bm != nil {
				o.TCP = append(o.TCP, tcpObs{Port: port, S: bm[1]})
			}
		}
	}
	sort.Slice(o.TCP, func(i, j int) bool { return o.TCP[i].Port < o.TCP[j].Port })
	for k, rt := range cur.Rt {
		if rt.Kind == "none" {
			continue
		}
		name := rt.Ns + "_" + rtNames[k] + "__rule0"
		if rt.Kind == "TCPRoute" {
			name = rt.Ns + "_" + rtNames[k] + "__tcprule0"
		}
		if !have[name] {
			continue
		}
		sw := cfgnf.ServerWeightsAll(raw, name)
		total := 0
		for _, ws := range sw {
			total += len(ws)
		}
		b := backObs{S: name, Grp: [][]int{}}
		used := 0
		nth := map[int]int{} // a Service referenced twice has its servers twice: the k-th reference reads the k-th occurrence
		for _, br := range rt.Backs {
			g := []int{}
			for n := 1; n <= br.S && br.S < 8; n++ { // s8 has no ready endpoint, s9 does not exist
				if ws := sw[epAddr(rt.Ns, br.S, n)+":8080"]; nth[br.S] < len(ws) {
					g = append(g, ws[nth[br.S]])
					used++
				} else {
					g = append(g, -1)
				}
			}
			nth[br.S]++
			b.Grp = append(b.Grp, g)
		}
		b.Xtr = total - used
		b.Bal = "roundrobin"
		for _, sec := range raw.Sections {
			if sec.Kind == "backend" && sec.Name == name {
				for _, l := range sec.Lines {
					if f := strings.Fields(l); len(f) >= 2 && f[0] == "balance" {
						b.Bal = f[1]
					}
				}
			}
		}
		o.Backs = append(o.Backs, b)
	}
	return o, nil
}

var keepNF bool // the normal form of every step is kept for the comparison with further runs (-fresh)

func runHistory(base, id string, seed int64, steps []wld, rawSteps []json.RawMessage) ([]rec, error) {
	// the API server returns lists in a random order
	cli := &pipeline.ShuffleClient{Client: pipeline.NewClient(), Rnd: rand.New(rand.NewSource(seed))}
	w, err := world.New(base, cli, pipeline.Options{WatchWithoutClass: true, Gateway: true})
	if err != nil {
		return nil, err
	}
	defer w.Close()
	p := w.P
	cur := map[string]client.Object{}
	var recs []rec
	for i, st := range steps {
		objs, quiet := objects(st)
		for _, o := range quiet {
			if _, _, err := pipeline.Store(p.Ctx, p.Client, o); err != nil {
				return nil, err
			}
		}
		keys := make([]string, 0, len(objs))
		for k := range objs {
			keys = append(keys, k)
		}
		sort.Strings(keys)
		for _, k := range keys {
			if _, _, err := p.Apply(objs[k]); err != nil {
				return nil, fmt.Errorf("%s step %d apply %s: %w", id, i, k, err)
			}
		}
		for k, o := range cur {
			if _, ok := objs[k]; !ok {
				if _, err := p.Delete(o); err != nil {
					return nil, fmt.Errorf("%s step %d delete %s: %w", id, i, k, err)
				}
			}
		}
		cur = objs
		if i == 0 {
			if _, err := p.Reconcile(true); err != nil {
				return nil, err
			}
		}
		if _, err := p.ReconcilePending(false); err != nil {
			return nil, err
		}
		ob, err := observe(w, st)
		if err != nil {
			return nil, err
		}
		r := rec{ID: id, Step: i, W: rawSteps[i], Obs: ob, Det: true, DetDiff: []string{}}
		if keepNF {
			raw, err := cfgnf.Load(w.Opt.CfgDir(), w.Opt.Dir)
			if err != nil {
				return nil, err
			}
			r.nf = raw.Canon()
		}
		recs = append(recs, r)
	}
	return recs, nil
}

func main() {
	in := flag.String("in", "", "histories (json): list of lists of worlds")
	outf := flag.String("out", "", "ndjson")
	work := flag.String("work", "", "scratch")
	par := flag.Int("par", 16, "parallel worlds")
	seed := flag.Int64("seed", 1, "seed of the list order")
	fresh := flag.Int("fresh", 0, "further runs of every history with another list order")
	flag.Parse()
	world.Chdir()
	keepNF = *fresh > 0
	data, err := os.ReadFile(*in)
	if err != nil {
		fmt.Fprintln(os.Stderr, err)
		os.Exit(2)
	}
	var hs [][]wld
	var rawhs [][]json.RawMessage
	if err := json.Unmarshal(data, &hs); err != nil {
		fmt.Fprintln(os.Stderr, err)
		os.Exit(2)
	}
	_ = json.Unmarshal(data, &rawhs)
	res := make([][]rec, len(hs))
	errs := make([]error, len(hs))
	var wg sync.WaitGroup
	sem := make(chan struct{}, *par)
	for i := range hs {
		wg.Add(1)
		sem <- struct{}{}
		go func(i int) {
			defer wg.Done()
			defer func() { <-sem }()
			id := fmt.Sprintf("h%d", i)
			res[i], errs[i] = runHistory(*work, id, *seed*7919+int64(i), hs[i], rawhs[i])
			for f := 1; f <= *fresh && errs[i] == nil; f++ {
				var again []rec
				again, errs[i] = runHistory(*work, id, *seed*7919+int64(i)+int64(f)*104729, hs[i], rawhs[i])
				for k := range again {
					if f == *fresh {
						defer func(r *rec) { r.nf = nil }(&res[i][k])
					}
					if d := cfgnf.Diff(res[i][k].nf, again[k].nf); len(d) > 0 && res[i][k].Det {
						res[i][k].Det = false
						if len(d) > 4 {
							d = d[:4]
						}
						res[i][k].DetDiff = d
					}
				}
			}
		}(i)
	}
	wg.Wait()
	f, _ := os.Create(*outf)
	defer f.Close()
	enc := json.NewEncoder(f)
	enc.SetEscapeHTML(false)
	n := 0
	for i := range hs {
		if errs[i] != nil {
			fmt.Fprintln(os.Stderr, strings.TrimSpace(errs[i].Error()))
			os.Exit(2)
		}
		for _, r := range res[i] {
			_ = enc.Encode(r)
			n++
		}
	}
	fmt.Printf("{\"histories\":%d,\"worlds\":%d}\n", len(hs), n)
}
