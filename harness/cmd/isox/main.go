// isox runs, for every cross-namespace case enumerated by TLC from spec/Isolation.tla, two worlds through the real pipeline:
// the reference of namespace a points to an existing object of namespace b, or to nothing; it records whether the written
// configurations are the same.
package main

import (
	"encoding/json"
	"flag"
	"fmt"
	"os"
	"sync"

	"verifharness/cfgnf"
	"verifharness/hist"
	"verifharness/kobj"
	"verifharness/pipeline"
	"verifharness/world"
)

type cs struct {
	Site     string `json:"site"`
	Form     string `json:"form"`
	Crt      string `json:"crt"`
	CA       string `json:"ca"`
	Passwd   string `json:"passwd"`
	Services string `json:"services"`
	Static   bool   `json:"static"`
	Exposure string `json:"exposure"`
	Prev     string `json:"prev"`
}

type rec struct {
	ID   string   `json:"id"`
	Cs   cs       `json:"cs"`
	Same bool     `json:"same"`
	Diff []string `json:"diff"`
}

var certs = hist.NewCerts()

func val(v string) string {
	if v == "bogus" {
		return "yes"
	}
	return v
}

func worldNF(base string, c cs, target string) (*cfgnf.NF, error) {
	w, err := world.New(base, nil, pipeline.Options{WatchWithoutClass: true, ConfigMapName: "ingress/cfg", AllowCrossNamespace: c.Static,
		Gateway: c.Site == "gateway-certref"})
	if err != nil {
		return nil, err
	}
	defer w.Close()
	p := w.P
	allowAll := map[string]string{
		"external-has-lua": "true", "cross-namespace-secrets-crt": "allow", "cross-namespace-secrets-ca": "allow",
		"cross-namespace-secrets-passwd": "allow", "cross-namespace-services": "allow"}
	settings := map[string]string{
		"external-has-lua": "true", "cross-namespace-secrets-crt": val(c.Crt), "cross-namespace-secrets-ca": val(c.CA),
		"cross-namespace-secrets-passwd": val(c.Passwd), "cross-namespace-services": val(c.Services)}
	if c.Prev == "allow" {
		p.Apply(kobj.ConfigMap("ingress", "cfg", allowAll))
	} else {
		p.Apply(kobj.ConfigMap("ingress", "cfg", settings))
	}
	for _, ns := range []string{"a", "b"} {
		p.Apply(kobj.Service(ns, "app", nil, ":8080:8080"))
		p.Apply(kobj.Endpoints(ns, "app", []string{"10.1.0.1:p"}, nil, ":8080"))
	}
	// the foreign objects of namespace b
	crt, key := certs.Get("foreign")
	ca, _ := certs.Get("foreignca")
	// one secret per kind: a tls secret that also carries ca.crt is verified against it
	switch c.Site {
	case "auth-tls-secret", "secure-verify-ca-secret":
		p.Apply(kobj.Secret("b", "obj", map[string][]byte{"ca.crt": ca}))
	case "auth-secret":
		p.Apply(kobj.Secret("b", "obj", map[string][]byte{"auth": []byte("usr::pwd\n")}))
	default:
		p.Apply(kobj.Secret("b", "obj", map[string][]byte{"tls.crt": crt, "tls.key": key}))
	}
	p.Apply(kobj.Service("b", "obj", nil, ":8080:8080"))
	p.Apply(kobj.Endpoints("b", "obj", []string{"10.2.0.9:q"}, nil, ":8080"))
	if c.Exposure == "used-by-foreign-ingress" {
		// namespace b uses its own objects, which is legitimate
		own := map[string]string{"ssl-redirect": "false"}
		var owntls []kobj.TLS
		switch c.Site {
		case "auth-tls-secret", "secure-verify-ca-secret":
			own["auth-tls-secret"] = "obj"
			owntls = []kobj.TLS{{Hosts: []string{"b.local"}, Secret: ""}}
		case "auth-secret":
			own["auth-secret"] = "obj"
		default:
			owntls = []kobj.TLS{{Hosts: []string{"b.local"}, Secret: "obj"}}
		}
		p.Apply(kobj.Ingress("b", "own", 0, own, nil,
			[]kobj.Rule{{Host: "b.local", Paths: []kobj.Path{{Path: "/", Svc: "obj", Port: "8080"}}}}, owntls, nil))
	}
	ref := "b/" + target
	switch c.Form {
	case "secret://ns/name":
		ref = "secret://b/" + target
	case "file://ns/name":
		ref = "file://b/" + target
	}
	ann := map[string]string{"ssl-redirect": "false"}
	var tls []kobj.TLS
	switch c.Site {
	case "tls-secret":
		tls = []kobj.TLS{{Hosts: []string{"a.local"}, Secret: ref}}
	case "auth-tls-secret":
		ann["auth-tls-secret"] = ref
		ann["auth-tls-verify-client"] = "on"
		tls = []kobj.TLS{{Hosts: []string{"a.local"}, Secret: ""}}
	case "secure-crt-secret":
		ann["secure-backends"] = "true"
		ann["secure-crt-secret"] = ref
	case "secure-verify-ca-secret":
		ann["secure-backends"] = "true"
		ann["secure-verify-ca-secret"] = ref
	case "auth-secret":
		ann["auth-secret"] = ref
	case "auth-url-svc":
		ann["auth-url"] = "svc://" + ref + ":8080/check"
	}
	if c.Site == "gateway-certref" {
		cr := kobj.CertRef{Name: ref}
		if c.Form == "namespace" {
			cr = kobj.CertRef{Name: target, Namespace: "b"}
		}
		p.Apply(kobj.GatewayClass("haproxy", pipeline.ControllerName))
		p.Apply(kobj.Gateway("a", "gw", "haproxy", []kobj.Listener{{Name: "l1", Port: 443, Protocol: "HTTPS", From: "Same", CertRefs: []kobj.CertRef{cr}}}))
		p.Apply(kobj.HTTPRoute("a", "rt", 1, []kobj.ParentRef{{Name: "gw"}}, []string{"a.local"}, "/", []kobj.BackendRef{{Svc: "app", Port: 8080, Weight: -1}}))
	} else {
		p.Apply(kobj.Ingress("a", "mine", 1, ann, nil, []kobj.Rule{{Host: "a.local", Paths: []kobj.Path{{Path: "/", Svc: "app", Port: "8080"}}}}, tls, nil))
	}
	if _, err := p.Reconcile(true); err != nil {
		return nil, err
	}
	if _, err := p.ReconcilePending(false); err != nil {
		return nil, err
	}
	switch c.Prev {
	case "allow":
		// the settings under test replace the permissive ones
		p.Apply(kobj.ConfigMap("ingress", "cfg", settings))
		if _, err := p.ReconcilePending(false); err != nil {
			return nil, err
		}
	case "flip":
		// granted and revoked again before the next reconciliation takes its batch
		p.Apply(kobj.ConfigMap("ingress", "cfg", allowAll))
		p.Apply(kobj.ConfigMap("ingress", "cfg", settings))
		if _, err := p.ReconcilePending(false); err != nil {
			return nil, err
		}
	}
	raw, err := cfgnf.Load(w.Opt.CfgDir(), w.Opt.Dir)
	if err != nil {
		return nil, err
	}
	return raw.Canon(), nil
}

func main() {
	in := flag.String("in", "", "cases (json)")
	outf := flag.String("out", "", "ndjson")
	work := flag.String("work", "", "scratch")
	flag.Parse()
	world.Chdir()
	data, err := os.ReadFile(*in)
	if err != nil {
		fmt.Fprintln(os.Stderr, err)
		os.Exit(2)
	}
	var cases []cs
	if err := json.Unmarshal(data, &cases); err != nil {
		fmt.Fprintln(os.Stderr, err)
		os.Exit(2)
	}
	certs.Get("foreign")
	certs.Get("foreignca")
	recs := make([]rec, len(cases))
	errs := make([]error, len(cases))
	var wg sync.WaitGroup
	sem := make(chan struct{}, 16)
	for i := range cases {
		wg.Add(1)
		sem <- struct{}{}
		go func(i int) {
			defer wg.Done()
			defer func() { <-sem }()
			r := rec{ID: fmt.Sprintf("c%d", i), Cs: cases[i], Diff: []string{}}
			n1, err := worldNF(*work, cases[i], "obj")
			if err == nil {
				var n2 *cfgnf.NF
				n2, err = worldNF(*work, cases[i], "nosuch")
				if err == nil {
					r.Diff = append([]string{}, cfgnf.Diff(n1, n2)...)
					r.Same = len(r.Diff) == 0
					if len(r.Diff) > 6 {
						r.Diff = r.Diff[:6]
					}
				}
			}
			recs[i], errs[i] = r, err
		}(i)
	}
	wg.Wait()
	f, _ := os.Create(*outf)
	defer f.Close()
	enc := json.NewEncoder(f)
	enc.SetEscapeHTML(false)
	for i := range cases {
		if errs[i] != nil {
			fmt.Fprintln(os.Stderr, errs[i])
			os.Exit(2)
		}
		_ = enc.Encode(recs[i])
	}
	fmt.Printf("{\"cases\":%d}\n", len(cases))
}
