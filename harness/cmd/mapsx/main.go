// mapsx feeds rule sets (enumerated by TLC from spec/Maps.tla) to the real haproxy.Config / hatypes.HostsMaps through
// WriteFrontendMaps and records the match files it emits, for every permitted path-type order.
package main

import (
	"encoding/json"
	"flag"
	"fmt"
	"os"
	"path/filepath"
	"strings"

	"github.com/jcmoraisjr/haproxy-ingress/pkg/haproxy"
	hatypes "github.com/jcmoraisjr/haproxy-ingress/pkg/haproxy/types"

	"verifharness/hlog"
	"verifharness/world"
)

type rule struct {
	H  string   `json:"h"`
	P  []string `json:"p"`
	Ty string   `json:"ty"`
	ID string   `json:"id"`
}

type entry struct {
	K []string `json:"k"`
	V string   `json:"v"`
}

type file struct {
	Method  string  `json:"method"`
	Lower   bool    `json:"lower"`
	Entries []entry `json:"entries"`
}

type out struct {
	ID       string              `json:"id"`
	Order    []string            `json:"order"`
	Rules    []rule              `json:"rules"`
	Files    []file              `json:"files"`
	HostKeys map[string][]string `json:"hostkeys"` // host -> characters of the lower-cased host as the frontend computes it
}

func chars(s string) []string {
	r := make([]string, 0, len(s))
	for _, c := range s {
		r = append(r, string(c))
	}
	return r
}

var orders = [][]hatypes.MatchType{
	{hatypes.MatchExact, hatypes.MatchPrefix, hatypes.MatchBegin, hatypes.MatchRegex},
	{hatypes.MatchExact, hatypes.MatchBegin, hatypes.MatchPrefix, hatypes.MatchRegex},
	{hatypes.MatchPrefix, hatypes.MatchExact, hatypes.MatchBegin, hatypes.MatchRegex},
	{hatypes.MatchPrefix, hatypes.MatchBegin, hatypes.MatchExact, hatypes.MatchRegex},
	{hatypes.MatchBegin, hatypes.MatchExact, hatypes.MatchPrefix, hatypes.MatchRegex},
	{hatypes.MatchRegex, hatypes.MatchBegin, hatypes.MatchPrefix, hatypes.MatchExact},
}

func main() {
	in := flag.String("in", "", "rule sets (json array of arrays of {h,p,ty})")
	outf := flag.String("out", "", "ndjson")
	work := flag.String("work", "", "scratch dir")
	norders := flag.Int("orders", 6, "number of path-type orders per rule set")
	flag.Parse()
	world.Chdir()
	data, err := os.ReadFile(*in)
	if err != nil {
		fmt.Fprintln(os.Stderr, err)
		os.Exit(2)
	}
	var sets [][]rule
	if err := json.Unmarshal(data, &sets); err != nil {
		fmt.Fprintln(os.Stderr, err)
		os.Exit(2)
	}
	os.MkdirAll(filepath.Join(*work, "maps"), 0o755)
	inst := haproxy.CreateInstance(hlog.Silent{}, haproxy.InstanceOptions{
		RootFSPrefix: "rootfs", LocalFSPrefix: *work, HAProxyCfgDir: *work, HAProxyMapsDir: filepath.Join(*work, "maps"),
	})
	if err := inst.ParseTemplates(); err != nil {
		fmt.Fprintln(os.Stderr, err)
		os.Exit(2)
	}
	f, err := os.Create(*outf)
	if err != nil {
		fmt.Fprintln(os.Stderr, err)
		os.Exit(2)
	}
	defer f.Close()
	enc := json.NewEncoder(f)
	enc.SetEscapeHTML(false)
	n := 0
	allHosts := map[string]bool{}
	for _, set := range sets {
		for _, r := range set {
			allHosts[r.H] = true
		}
	}
	for si, set := range sets {
		for oi, order := range orders[:*norders] {
			cfg := inst.Config()
			cfg.Clear()
			cfg.Global().MatchOrder = order
			o := out{ID: fmt.Sprintf("s%d-o%d", si, oi), HostKeys: map[string][]string{}, Files: []file{}}
			for _, m := range order {
				o.Order = append(o.Order, string(m))
			}
			for h := range allHosts {
				o.HostKeys[h] = chars(strings.ToLower(h))
			}
			for _, r := range set {
				r.ID = r.H + "|" + strings.Join(r.P, "") + "|" + r.Ty
				o.Rules = append(o.Rules, r)
				o.HostKeys[r.H] = chars(strings.ToLower(r.H))
				host := cfg.Hosts().AcquireHost(r.H)
				// the backend id is the value of the map: one backend per rule identifies the winner
				b := cfg.Backends().AcquireBackend("r", fmt.Sprintf("%d", len(o.Rules)), "8080")
				b.ID = r.ID
				host.AddPath(b, strings.Join(r.P, ""), hatypes.MatchType(r.Ty))
			}
			if err := cfg.WriteFrontendMaps(); err != nil {
				fmt.Fprintln(os.Stderr, err)
				os.Exit(2)
			}
			for _, mf := range cfg.Frontend().Maps.HTTPHostMap.MatchFiles() {
				fl := file{Method: mf.Method(), Lower: mf.Lower(), Entries: []entry{}}
				for _, e := range mf.Values() {
					fl.Entries = append(fl.Entries, entry{K: chars(e.Key), V: e.Value})
				}
				o.Files = append(o.Files, fl)
			}
			_ = enc.Encode(o)
			n++
		}
	}
	fmt.Printf("{\"cases\":%d}\n", n)
}
