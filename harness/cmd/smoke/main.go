package main

import (
	"fmt"
	"os"
	"path/filepath"
	"time"

	"verifharness/hasim"
	"verifharness/kobj"
	"verifharness/pipeline"
)

func main() {
	if err := os.Chdir(os.Getenv("VERIF_REPO")); err != nil {
		panic(err)
	}
	dir, _ := os.MkdirTemp("", "smoke")
	defer os.RemoveAll(dir)
	cli := pipeline.NewClient()
	opt := pipeline.Options{Dir: dir, WatchWithoutClass: true, ConfigMapName: "ingress/cfg"}
	opt.Prepare()
	sim, err := hasim.Start(opt.CfgDir(), opt.AdminSocket(), opt.MasterSocket())
	if err != nil {
		panic(err)
	}
	t := time.Now()
	p, err := pipeline.New(cli, opt)
	if err != nil {
		panic(err)
	}
	fmt.Println("new:", time.Since(t))
	p.Apply(kobj.ConfigMap("ingress", "cfg", map[string]string{"external-has-lua": "true"}))
	p.Apply(kobj.Service("d", "app", nil, "http:80:8080"))
	p.Apply(kobj.Endpoints("d", "app", []string{"10.1.0.1:app-1", "10.1.0.2:app-2"}, nil, "http:8080"))
	p.Apply(kobj.Ingress("d", "i1", 1, map[string]string{"auth-url": "http://10.0.0.9:80/auth"}, nil, []kobj.Rule{{Host: "a.local", Paths: []kobj.Path{{Path: "/", Svc: "app", Port: "80"}, {Path: "/x", Type: "exact", Svc: "app", Port: "http"}}}}, nil, nil))
	t = time.Now()
	n, err := p.ReconcilePending(false)
	fmt.Println("reconcile:", n, err, time.Since(t))
	p.Apply(kobj.Endpoints("d", "app", []string{"10.1.0.1:app-1", "10.1.0.3:app-3"}, nil, "http:8080"))
	t = time.Now()
	n, err = p.ReconcilePending(false)
	fmt.Println("reconcile:", n, err, time.Since(t))
	r, rr, cmds := sim.Snapshot()
	fmt.Println(r, rr, cmds)
	b, _ := os.ReadFile(filepath.Join(opt.CfgDir(), "haproxy.cfg"))
	fmt.Println(string(b))
	files, _ := filepath.Glob(filepath.Join(opt.MapsDir(), "*"))
	for _, f := range files {
		b, _ := os.ReadFile(f)
		fmt.Println("==", f)
		fmt.Println(string(b))
	}
	fmt.Println(sim.RunningCopy().Project())
	d, _ := hasim.LoadRuntime(opt.CfgDir())
	fmt.Println(d.Project())
}
