// snipx writes config-backend snippets (texts enumerated by TLC from spec/Snippet.tla) as Ingress or Service annotations,
// runs the real pipeline with --disable-config-keywords set, and records which lines reached each backend section.
package main

import (
	"context"
	"net/http"
	"net/http/httptest"

	"k8s.io/client-go/rest"

	ctrlconfig "github.com/jcmoraisjr/haproxy-ingress/pkg/controller/config"

	"bufio"
	"encoding/json"
	"flag"
	"fmt"
	"os"
	"path/filepath"
	"strings"

	"verifharness/kobj"
	"verifharness/pipeline"
	"verifharness/world"
)

type group struct {
	Kw    []string   `json:"kw"`
	Opt   *string    `json:"opt,omitempty"` // the raw value of --disable-config-keywords: parsed by the controller itself
	Texts [][]string `json:"texts"`
}

type rec struct {
	ID    string     `json:"id"`
	Src   string     `json:"src"` // ingress | service | both
	Kw    [][]string `json:"kw"`
	KwOpt []string   `json:"kwopt"` // characters of the raw option value ([] when the list was given directly)
	Text  []string   `json:"text"`
	Lines [][]string `json:"lines"`
}

func chars(s string) []string {
	r := []string{}
	for _, c := range s {
		r = append(r, string(c))
	}
	return r
}

func isSnippetLine(l string, alphabet string) bool {
	f := strings.Fields(l)
	if len(f) == 0 {
		return false
	}
	for _, c := range f[0] {
		if !strings.ContainsRune(alphabet, c) {
			return false
		}
	}
	// comments of a snippet have no blank after the #, the ones the template writes do
	return f[0] != "#"
}

func main() {
	in := flag.String("in", "", "groups (json)")
	outf := flag.String("out", "", "ndjson")
	work := flag.String("work", "", "scratch")
	batch := flag.Int("batch", 200, "backends per sync")
	flag.Parse()
	world.Chdir()
	data, err := os.ReadFile(*in)
	if err != nil {
		fmt.Fprintln(os.Stderr, err)
		os.Exit(2)
	}
	var groups []group
	if err := json.Unmarshal(data, &groups); err != nil {
		fmt.Fprintln(os.Stderr, err)
		os.Exit(2)
	}
	f, _ := os.Create(*outf)
	defer f.Close()
	enc := json.NewEncoder(f)
	enc.SetEscapeHTML(false)
	n := 0
	for gi, g := range groups {
		kwopt := []string{}
		if g.Opt != nil {
			// the option goes through the controller's own command-line handling (config.CreateWithConfig)
			kws, err := parseOption(*g.Opt, *work)
			if err != nil {
				fmt.Fprintln(os.Stderr, err)
				os.Exit(2)
			}
			g.Kw = kws
			kwopt = chars(*g.Opt)
		}
		var kwc [][]string
		for _, k := range g.Kw {
			kwc = append(kwc, chars(k))
		}
		if kwc == nil {
			kwc = [][]string{}
		}
		for start := 0; start < len(g.Texts); start += *batch {
			end := min(start+*batch, len(g.Texts))
			w, err := world.New(*work, nil, pipeline.Options{WatchWithoutClass: true, DisableKeywords: g.Kw})
			if err != nil {
				fmt.Fprintln(os.Stderr, err)
				os.Exit(2)
			}
			p := w.P
			srcs := map[int]string{}
			for i := start; i < end; i++ {
				text := strings.Join(g.Texts[i], "")
				svc := fmt.Sprintf("s%d", i)
				src := []string{"ingress", "service", "both"}[i%3]
				if text == "" && src == "both" {
					src = "service"
				}
				srcs[i] = src
				var sann, iann map[string]string
				if src == "service" || src == "both" {
					sann = map[string]string{"config-backend": text}
				}
				if src == "ingress" {
					iann = map[string]string{"config-backend": text}
				}
				if src == "both" {
					// the Service annotation has precedence; the Ingress one carries an allowed line that must not show up
					iann = map[string]string{"config-backend": "bbb"}
				}
				p.Apply(kobj.Service("d", svc, sann, ":8080:8080"))
				p.Apply(kobj.Endpoints("d", svc, []string{"10.1.0.1:p"}, nil, ":8080"))
				p.Apply(kobj.Ingress("d", fmt.Sprintf("i%d", i), i, iann, nil,
					[]kobj.Rule{{Host: fmt.Sprintf("h%d.local", i), Paths: []kobj.Path{{Path: "/", Svc: svc, Port: "8080"}}}}, nil, nil))
			}
			if _, err := p.ReconcilePending(false); err != nil {
				fmt.Fprintln(os.Stderr, err)
				os.Exit(2)
			}
			// raw lines of every backend section
			sections := map[string][]string{}
			fh, err := os.Open(filepath.Join(w.Opt.CfgDir(), "haproxy.cfg"))
			if err != nil {
				fmt.Fprintln(os.Stderr, err)
				os.Exit(2)
			}
			sc := bufio.NewScanner(fh)
			sc.Buffer(make([]byte, 1<<20), 1<<26)
			cur := ""
			for sc.Scan() {
				l := sc.Text()
				if l != "" && l[0] != ' ' && l[0] != '\t' && l[0] != '#' {
					fs := strings.Fields(l)
					cur = ""
					if len(fs) > 1 && fs[0] == "backend" {
						cur = fs[1]
					}
					continue
				}
				if cur != "" {
					sections[cur] = append(sections[cur], l)
				}
			}
			fh.Close()
			for i := start; i < end; i++ {
				r := rec{ID: fmt.Sprintf("g%d-%d", gi, i), Src: srcs[i], Kw: kwc, KwOpt: kwopt, Text: g.Texts[i], Lines: [][]string{}}
				if r.Text == nil {
					r.Text = []string{}
				}
				for _, l := range sections[fmt.Sprintf("d_s%d_8080", i)] {
					if isSnippetLine(l, "abA*#\"'\\") {
						r.Lines = append(r.Lines, chars(strings.TrimPrefix(l, "    ")))
					}
				}
				_ = enc.Encode(r)
				n++
			}
			w.Close()
		}
		// the same snippet as the default of the global ConfigMap: "Configuration snippets added as a global config does not
		// follow this option" (command-line documentation) -- a sample of the texts, one controller each
		for i := 0; i < len(g.Texts); i += 23 {
			text := strings.Join(g.Texts[i], "")
			if strings.TrimSpace(text) == "" {
				continue
			}
			w, err := world.New(*work, nil, pipeline.Options{WatchWithoutClass: true, DisableKeywords: g.Kw, ConfigMapName: "ingress/cfg"})
			if err != nil {
				fmt.Fprintln(os.Stderr, err)
				os.Exit(2)
			}
			p := w.P
			p.Apply(kobj.ConfigMap("ingress", "cfg", map[string]string{"config-backend": text}))
			p.Apply(kobj.Service("d", "sg", nil, ":8080:8080"))
			p.Apply(kobj.Endpoints("d", "sg", []string{"10.1.0.1:p"}, nil, ":8080"))
			p.Apply(kobj.Ingress("d", "ig", 1, nil, nil, []kobj.Rule{{Host: "hg.local", Paths: []kobj.Path{{Path: "/", Svc: "sg", Port: "8080"}}}}, nil, nil))
			if _, err := p.ReconcilePending(false); err != nil {
				fmt.Fprintln(os.Stderr, err)
				os.Exit(2)
			}
			r := rec{ID: fmt.Sprintf("g%d-%d-global", gi, i), Src: "global", Kw: kwc, KwOpt: kwopt, Text: g.Texts[i], Lines: [][]string{}}
			data, _ := os.ReadFile(filepath.Join(w.Opt.CfgDir(), "haproxy.cfg"))
			cur := ""
			for _, l := range strings.Split(string(data), "\n") {
				l = strings.TrimSuffix(l, "\r") // as bufio.ScanLines does for the other sources
				if l != "" && l[0] != ' ' && l[0] != '\t' && l[0] != '#' {
					fs := strings.Fields(l)
					cur = ""
					if len(fs) > 1 && fs[0] == "backend" {
						cur = fs[1]
					}
					continue
				}
				if cur == "d_sg_8080" && isSnippetLine(l, "abA*#\"'\\") {
					r.Lines = append(r.Lines, chars(strings.TrimPrefix(l, "    ")))
				}
			}
			_ = enc.Encode(r)
			n++
			w.Close()
		}
	}
	fmt.Printf("{\"backends\":%d}\n", n)
}

var stubAPI *httptest.Server

// parseOption hands the raw option value to config.CreateWithConfig, with a stub API server that only answers its
// connectivity check, and returns the keyword list the controller would run with.
func parseOption(value, work string) ([]string, error) {
	if stubAPI == nil {
		stubAPI = httptest.NewServer(http.HandlerFunc(func(w http.ResponseWriter, r *http.Request) {
			w.Header().Set("Content-Type", "application/json")
			if strings.HasSuffix(r.URL.Path, "/services") {
				_, _ = w.Write([]byte(`{"kind":"ServiceList","apiVersion":"v1","metadata":{},"items":[]}`))
				return
			}
			w.WriteHeader(http.StatusNotFound)
			_, _ = w.Write([]byte(`{"kind":"Status","apiVersion":"v1","status":"Failure","reason":"NotFound","code":404}`))
		}))
	}
	dir, err := os.MkdirTemp(work, "opt")
	if err != nil {
		return nil, err
	}
	defer os.RemoveAll(dir)
	opt := ctrlconfig.NewOptions()
	opt.UpdateStatus = false
	opt.WatchGateway = false
	opt.LocalFSPrefix = dir
	opt.DisableConfigKeywords = value
	ctx, cancel := context.WithCancel(context.Background())
	defer cancel()
	cfg, err := ctrlconfig.CreateWithConfig(ctx, &rest.Config{Host: stubAPI.URL}, opt)
	if err != nil {
		return nil, err
	}
	return cfg.DisableKeywords, nil
}
