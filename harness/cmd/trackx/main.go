// trackx runs the call sequences proposed by TLC from spec/Tracker.tla on the real tracker of the converters
// (pkg/converters/tracker) and records every answer for spec/TraceTracker.tla.
package main

import (
	"encoding/json"
	"flag"
	"fmt"
	"os"
	"sort"

	"github.com/jcmoraisjr/haproxy-ingress/pkg/converters/tracker"
	convtypes "github.com/jcmoraisjr/haproxy-ingress/pkg/converters/types"
)

type node struct {
	Ctx  string `json:"ctx"`
	Name string `json:"name"`
}

type call struct {
	Op     string `json:"op"`
	A      *node  `json:"a,omitempty"`
	B      *node  `json:"b,omitempty"`
	Input  []node `json:"input,omitempty"`
	Remove bool   `json:"remove"`
}

type line struct {
	Op     string `json:"op"`
	ID     string `json:"id"`
	N      int    `json:"n"`
	A      *node  `json:"a,omitempty"`
	B      *node  `json:"b,omitempty"`
	Input  []node `json:"input,omitempty"`
	Remove bool   `json:"remove"`
	Out    []node `json:"out"`
}

func main() {
	in := flag.String("in", "", "call sequences (json)")
	outf := flag.String("out", "", "ndjson")
	flag.Parse()
	data, err := os.ReadFile(*in)
	if err != nil {
		fmt.Fprintln(os.Stderr, err)
		os.Exit(2)
	}
	var seqs [][]call
	if err := json.Unmarshal(data, &seqs); err != nil {
		fmt.Fprintln(os.Stderr, err)
		os.Exit(2)
	}
	f, _ := os.Create(*outf)
	defer f.Close()
	enc := json.NewEncoder(f)
	for i, seq := range seqs {
		id := fmt.Sprintf("t%d", i)
		t := tracker.NewTracker()
		_ = enc.Encode(line{Op: "reset", ID: id, Out: []node{}})
		for n, c := range seq {
			l := line{Op: c.Op, ID: id, N: n, A: c.A, B: c.B, Input: c.Input, Remove: c.Remove, Out: []node{}}
			switch c.Op {
			case "track":
				t.TrackNames(convtypes.ResourceType(c.A.Ctx), c.A.Name, convtypes.ResourceType(c.B.Ctx), c.B.Name)
			case "clear":
				t.ClearLinks()
			case "query":
				input := convtypes.TrackingLinks{}
				for _, x := range c.Input {
					input[convtypes.ResourceType(x.Ctx)] = append(input[convtypes.ResourceType(x.Ctx)], x.Name)
				}
				res := t.QueryLinks(input, c.Remove)
				for ctx, names := range res {
					for _, name := range names {
						l.Out = append(l.Out, node{Ctx: string(ctx), Name: name})
					}
				}
				sort.Slice(l.Out, func(i, j int) bool { return l.Out[i].Ctx+l.Out[i].Name < l.Out[j].Ctx+l.Out[j].Name })
			}
			_ = enc.Encode(l)
		}
	}
	fmt.Printf("{\"sequences\":%d}\n", len(seqs))
}
