// watchx drives the real watchers (pkg/controller/reconciler, hook H2) with the real class validator:
//
//	-mode seq : replays the delivery/swap schedules proposed by TLC from spec/Watchers.tla, one after the other;
//	-mode conc: several informer goroutines deliver uniquely named events while another goroutine keeps taking
//	            batches (and delivers the ConfigMap updates); meant to be built with -race.
//
// It writes one line per delivery and per swap for spec/TraceWatchers.tla.  In conc mode the delivery order is the
// order of the object list entries of the batches (they are appended under the lock).
package main

import (
	"encoding/json"
	"flag"
	"fmt"
	"math/rand"
	"os"
	"runtime"
	"strconv"
	"strings"
	"sync"
	"sync/atomic"

	api "k8s.io/api/core/v1"
	discoveryv1 "k8s.io/api/discovery/v1"
	metav1 "k8s.io/apimachinery/pkg/apis/meta/v1"
	"sigs.k8s.io/controller-runtime/pkg/client"

	"github.com/jcmoraisjr/haproxy-ingress/pkg/controller/reconciler"
	convtypes "github.com/jcmoraisjr/haproxy-ingress/pkg/converters/types"

	"verifharness/kobj"
	"verifharness/pipeline"
	"verifharness/world"
)

type event struct {
	Res  string `json:"res"`
	Name string `json:"name"`
	Op   string `json:"op"`
	V    *int   `json:"v,omitempty"`
	Old  *bool  `json:"old,omitempty"`
	New  *bool  `json:"new,omitempty"`
	Term *bool  `json:"term,omitempty"`
	// Endpoints / EndpointSlice: the addresses differ between the old and the new object; Svc: service (ns/name) the slice is labelled with
	Chg *bool   `json:"chg,omitempty"`
	Svc *string `json:"svc,omitempty"`
}

type step struct {
	Ev    string `json:"ev"`
	E     *event `json:"e,omitempty"`
	Slice bool   `json:"slice,omitempty"` // ev = Mode: --enable-endpointslices-api
}

type batch struct {
	Objs  []string            `json:"objs"`
	Links map[string][]string `json:"links"`
	Ia    []string            `json:"ia"`
	Iu    []string            `json:"iu"`
	Id    []string            `json:"id"`
	Gcur  int                 `json:"gcur"`
	Gnew  int                 `json:"gnew"`
	Tcur  int                 `json:"tcur"`
	Tnew  int                 `json:"tnew"`
	Full  bool                `json:"full"`
}

type line struct {
	Ev  string    `json:"ev"`
	ID  string    `json:"id,omitempty"`
	// Reset: the EndpointSlice option of the execution
	Slice *bool `json:"slice,omitempty"`
	E   *event    `json:"e,omitempty"`
	Acc *bool     `json:"acc,omitempty"`
	Q   *[]string `json:"q,omitempty"`
	P   *int      `json:"p,omitempty"`
	J   *int      `json:"j,omitempty"`
	B   *batch    `json:"b,omitempty"`
	// Stable: the batch handed out by the previous swap, read again just before this swap, still is what it was
	Stable *bool `json:"stable,omitempty"`
	Nf     *int  `json:"full,omitempty"`
	Np     *int  `json:"partial,omitempty"`
}

var resKinds = []string{"ConfigMap", "Ingress", "IngressClass", "Service", "Secret", "Endpoints", "Pod", "Gateway", "GatewayClass", "HTTPRoute", "TCPRoute"}

func split(name string) (string, string) {
	if i := strings.Index(name, "/"); i >= 0 {
		return name[:i], name[i+1:]
	}
	return "", name
}

func classAnn(valid bool) map[string]string {
	if valid {
		return map[string]string{"kubernetes.io/ingress.class": "haproxy"}
	}
	return map[string]string{"kubernetes.io/ingress.class": "other"}
}

func controllerOf(valid bool) string {
	if valid {
		return pipeline.ControllerName
	}
	return "example.io/other"
}

// objects builds the old and new version of the object an event is about.
func objects(e *event, rev int) (old, cur client.Object) {
	ns, name := split(e.Name)
	b := func(p *bool) bool { return p != nil && *p }
	switch e.Res {
	case "ConfigMap":
		v := 0
		if e.V != nil {
			v = *e.V
		}
		o := kobj.ConfigMap(ns, name, map[string]string{"v": strconv.Itoa(v + 100)})
		n := kobj.ConfigMap(ns, name, map[string]string{"v": strconv.Itoa(v)})
		return o, n
	case "Ingress":
		o := kobj.Ingress(ns, name, 1, classAnn(b(e.Old)), nil, []kobj.Rule{{Host: "x.local", Paths: []kobj.Path{{Path: "/", Svc: "s", Port: "8080"}}}}, nil, nil)
		n := kobj.Ingress(ns, name, 1, classAnn(b(e.New)), nil, []kobj.Rule{{Host: "x.local", Paths: []kobj.Path{{Path: "/", Svc: "s", Port: "8080"}}}}, nil, nil)
		n.Annotations["haproxy-ingress.github.io/rev"] = strconv.Itoa(rev)
		n.Generation = o.Generation + 1
		return o, n
	case "IngressClass":
		o := kobj.IngressClass(name, controllerOf(b(e.Old)), nil)
		n := kobj.IngressClass(name, controllerOf(b(e.New)), nil)
		n.Generation = o.Generation + 1
		return o, n
	case "Service":
		o := kobj.Service(ns, name, nil, ":8080:8080")
		n := kobj.Service(ns, name, nil, ":8080:8080")
		n.Generation = o.Generation + 1
		return o, n
	case "Secret":
		o := kobj.Secret(ns, name, map[string][]byte{"k": []byte("1")})
		n := kobj.Secret(ns, name, map[string][]byte{"k": []byte(strconv.Itoa(rev))})
		return o, n
	case "Endpoints":
		o := kobj.Endpoints(ns, name, []string{"10.0.0.1:p"}, nil, ":8080")
		n := kobj.Endpoints(ns, name, []string{"10.0.0.1:p", "10.0.0.2:q"}, nil, ":8080")
		if !b(e.Chg) {
			// same subsets, something else differs
			n = kobj.Endpoints(ns, name, []string{"10.0.0.1:p"}, nil, ":8080")
			n.Annotations = map[string]string{"rev": strconv.Itoa(rev)}
			n.ResourceVersion = strconv.Itoa(rev + 1)
		}
		return o, n
	case "EndpointSlice":
		mk := func(ips ...string) *discoveryv1.EndpointSlice {
			sl := &discoveryv1.EndpointSlice{ObjectMeta: kobj.Meta(ns, name, 0), AddressType: discoveryv1.AddressTypeIPv4}
			sl.TypeMeta = metav1.TypeMeta{Kind: "EndpointSlice", APIVersion: "discovery.k8s.io/v1"}
			if e.Svc != nil && *e.Svc != "" {
				_, svc := split(*e.Svc)
				sl.Labels = map[string]string{"kubernetes.io/service-name": svc}
			}
			for _, ip := range ips {
				sl.Endpoints = append(sl.Endpoints, discoveryv1.Endpoint{Addresses: []string{ip}})
			}
			return sl
		}
		o, n := mk("10.0.0.1"), mk("10.0.0.1", "10.0.0.2")
		if !b(e.Chg) {
			n = mk("10.0.0.1")
			n.Annotations = map[string]string{"rev": strconv.Itoa(rev)}
			n.ResourceVersion = strconv.Itoa(rev + 1)
		}
		return o, n
	case "Gateway":
		o := kobj.Gateway(ns, name, "haproxy", []kobj.Listener{{Name: "l1", Port: 80, Protocol: "HTTP", From: "Same"}})
		n := kobj.Gateway(ns, name, "haproxy", []kobj.Listener{{Name: "l1", Port: 80, Protocol: "HTTP", From: "All"}})
		n.Generation = o.Generation + 1
		return o, n
	case "GatewayClass":
		o := kobj.GatewayClass(name, controllerOf(b(e.Old)))
		n := kobj.GatewayClass(name, controllerOf(b(e.New)))
		n.Generation = o.Generation + 1
		return o, n
	case "HTTPRoute":
		o := kobj.HTTPRoute(ns, name, 1, []kobj.ParentRef{{Name: "gw"}}, nil, "/", []kobj.BackendRef{{Svc: "s", Port: 8080, Weight: -1}})
		n := kobj.HTTPRoute(ns, name, 1, []kobj.ParentRef{{Name: "gw"}}, nil, "/x", []kobj.BackendRef{{Svc: "s", Port: 8080, Weight: -1}})
		n.Generation = o.Generation + 1
		return o, n
	case "TCPRoute":
		o := kobj.TCPRoute(ns, name, 1, []kobj.ParentRef{{Name: "gw"}}, []kobj.BackendRef{{Svc: "s", Port: 8080, Weight: -1}})
		n := kobj.TCPRoute(ns, name, 1, []kobj.ParentRef{{Name: "gw"}}, []kobj.BackendRef{{Svc: "s", Port: 8081, Weight: -1}})
		n.Generation = o.Generation + 1
		return o, n
	case "Pod":
		o := kobj.Pod(ns, name, "10.0.0.1", nil, false)
		n := kobj.Pod(ns, name, "10.0.0.1", nil, b(e.Term))
		return o, n
	}
	panic("unknown kind " + e.Res)
}

func deliver(w *reconciler.VerifWatchers, p *pipeline.Pipeline, e *event, rev int) bool {
	old, cur := objects(e, rev)
	switch e.Op {
	case "add":
		return w.Create(p.Ctx, cur)
	case "update":
		return w.Update(p.Ctx, old, cur)
	}
	if e.Res == "Ingress" || e.Res == "IngressClass" || e.Res == "GatewayClass" {
		return w.Delete(p.Ctx, old)
	}
	return w.Delete(p.Ctx, cur)
}

func ver(d map[string]string) int {
	if d == nil {
		return 0
	}
	if len(d) == 0 {
		return 9 // empty data: what a deleted ConfigMap leaves (Watchers!Empty)
	}
	v, _ := strconv.Atoi(d["v"])
	return v
}

func ingNames(l interface{ Len() int }) []string { return nil }

func batchOf(ch *convtypes.ChangedObjects) *batch {
	b := &batch{Objs: append([]string{}, ch.Objects...), Links: map[string][]string{}, Ia: []string{}, Iu: []string{}, Id: []string{},
		Gcur: ver(ch.GlobalConfigMapDataCur), Gnew: ver(ch.GlobalConfigMapDataNew), Tcur: ver(ch.TCPConfigMapDataCur), Tnew: ver(ch.TCPConfigMapDataNew),
		Full: ch.NeedFullSync}
	for _, r := range resKinds {
		b.Links[r] = append([]string{}, ch.Links[convtypes.ResourceType(r)]...)
	}
	for _, i := range ch.IngressesAdd {
		b.Ia = append(b.Ia, i.Namespace+"/"+i.Name)
	}
	for _, i := range ch.IngressesUpd {
		b.Iu = append(b.Iu, i.Namespace+"/"+i.Name)
	}
	for _, i := range ch.IngressesDel {
		b.Id = append(b.Id, i.Namespace+"/"+i.Name)
	}
	return b
}

// key is Watchers!Key: a slice is filed under the Endpoints kind and the name of its service
func key(e *event) string {
	if e.Res == "EndpointSlice" {
		if e.Svc != nil && *e.Svc != "" {
			return e.Op + "/Endpoints:" + *e.Svc
		}
		return e.Op + "/Endpoints:" + e.Name
	}
	return e.Op + "/" + e.Res + ":" + e.Name
}

func pb(b bool) *bool         { return &b }
func pi(i int) *int           { return &i }
func ps(s []string) *[]string { return &s }

// ---- sequential replay

func runSeq(p *pipeline.Pipeline, id string, steps []step, enc *json.Encoder) {
	var q []string
	w := reconciler.NewVerifWatchers(p.Ctx, p.Cfg, p.Svc.GetIsValidResource(), func(full bool) {
		if full {
			q = append(q, "full")
		} else {
			q = append(q, "partial")
		}
	})
	slice := len(steps) > 0 && steps[0].Ev == "Mode" && steps[0].Slice
	if len(steps) > 0 && steps[0].Ev == "Mode" {
		steps = steps[1:]
	}
	p.Cfg.EnableEndpointSliceAPI = slice
	_ = enc.Encode(line{Ev: "Reset", ID: id, Slice: pb(slice)})
	nf, np := 0, 0
	j := 0
	var held *convtypes.ChangedObjects // the reconciliation keeps its batch while later events arrive
	var heldWas *batch
	for _, s := range append(steps, step{Ev: "Swap"}) {
		if s.Ev == "Swap" {
			stable := heldWas == nil || sameBatch(heldWas, batchOf(held))
			held = w.Swap()
			heldWas = batchOf(held)
			_ = enc.Encode(line{Ev: "Swap", B: heldWas, Stable: pb(stable)})
			continue
		}
		q = []string{}
		j++
		acc := deliver(w, p, s.E, j)
		for _, k := range q {
			if k == "full" {
				nf++
			} else {
				np++
			}
		}
		_ = enc.Encode(line{Ev: "Deliver", E: s.E, Acc: pb(acc), Q: ps(append([]string{}, q...)), P: pi(0), J: pi(j)})
	}
	_ = enc.Encode(line{Ev: "Counts", Nf: pi(nf), Np: pi(np)})
}

func sameBatch(a, b *batch) bool {
	x, _ := json.Marshal(a)
	y, _ := json.Marshal(b)
	return string(x) == string(y)
}

// ---- concurrent run

type done struct {
	e   *event
	acc bool
	p   int
	j   int
}

func program(rnd *rand.Rand, p, n int) []*event {
	var evs []*event
	ops := []string{"add", "update", "del"}
	for j := 1; j <= n; j++ {
		name := fmt.Sprintf("a/p%d-%d", p, j)
		e := &event{Op: ops[rnd.Intn(3)]}
		switch k := rnd.Intn(10); {
		case k < 4:
			e.Res, e.Name, e.Old, e.New = "Ingress", name, pb(rnd.Intn(2) == 0), pb(rnd.Intn(2) == 0)
		case k < 5:
			e.Res, e.Name, e.Old, e.New = "IngressClass", fmt.Sprintf("cls-p%d-%d", p, j), pb(rnd.Intn(2) == 0), pb(rnd.Intn(2) == 0)
		case k < 7:
			e.Res, e.Name = "Service", name
		case k < 8:
			e.Res, e.Name = "Secret", name
		case k < 9:
			if rnd.Intn(2) == 0 {
				e.Res, e.Name, e.Chg = "Endpoints", name, pb(rnd.Intn(3) > 0)
				if rnd.Intn(2) == 0 {
					// the slice of a service nobody else names in this execution
					e.Res, e.Name, e.Svc = "EndpointSlice", name+"-k1", &name
					if rnd.Intn(3) == 0 {
						none := ""
						e.Svc = &none
					}
				}
			} else if rnd.Intn(4) == 0 {
				e.Res, e.Name, e.Old, e.New = "GatewayClass", fmt.Sprintf("gc-p%d-%d", p, j), pb(rnd.Intn(2) == 0), pb(rnd.Intn(2) == 0)
			} else {
				e.Res, e.Name = []string{"Gateway", "HTTPRoute", "TCPRoute"}[rnd.Intn(3)], name
			}
		default:
			e.Res, e.Name, e.Term = "Pod", name, pb(rnd.Intn(2) == 0)
		}
		evs = append(evs, e)
	}
	return evs
}

func runConc(p *pipeline.Pipeline, id string, seed int64, producers, perProducer int, enc *json.Encoder) {
	var nf, np int64
	w := reconciler.NewVerifWatchers(p.Ctx, p.Cfg, p.Svc.GetIsValidResource(), func(full bool) {
		if full {
			atomic.AddInt64(&nf, 1)
		} else {
			atomic.AddInt64(&np, 1)
		}
	})
	slice := seed%2 == 1
	p.Cfg.EnableEndpointSliceAPI = slice
	rnd := rand.New(rand.NewSource(seed))
	progs := make([][]*event, producers)
	for i := range progs {
		progs[i] = program(rnd, i+1, perProducer)
	}
	logs := make([][]done, producers)
	var wg sync.WaitGroup
	var running int64 = int64(producers)
	start := make(chan struct{})
	for i := range progs {
		wg.Add(1)
		go func(i int) {
			defer wg.Done()
			defer atomic.AddInt64(&running, -1)
			<-start
			lr := rand.New(rand.NewSource(seed*131 + int64(i)))
			for j, e := range progs[i] {
				acc := deliver(w, p, e, j+1)
				logs[i] = append(logs[i], done{e: e, acc: acc, p: i + 1, j: j + 1})
				if lr.Intn(4) == 0 {
					runtime.Gosched()
				}
			}
		}(i)
	}
	// the swapper also plays the ConfigMap informer: its events fall in windows it knows
	type window struct {
		cms    []done
		b      *batch
		stable bool
	}
	var held *convtypes.ChangedObjects
	var heldWas *batch
	var wins []window
	srnd := rand.New(rand.NewSource(seed * 7))
	close(start)
	gv, tv, cj := 0, 0, 0
	for fin := false; !fin; {
		fin = atomic.LoadInt64(&running) == 0
		var wnd window
		for n := srnd.Intn(3); n > 0; n-- {
			e := &event{Res: "ConfigMap", Op: []string{"add", "update", "del"}[srnd.Intn(3)]}
			switch srnd.Intn(3) {
			case 0:
				gv++
				e.Name, e.V = "ingress/cfg", pi(gv)
			case 1:
				tv++
				e.Name, e.V = "ingress/tcp", pi(tv)
			default:
				e.Name, e.V = []string{"ingress/other", "x/other"}[srnd.Intn(2)], pi(1)
			}
			cj++
			acc := deliver(w, p, e, cj)
			wnd.cms = append(wnd.cms, done{e: e, acc: acc, p: 0, j: cj})
		}
		if srnd.Intn(3) == 0 {
			runtime.Gosched()
		}
		wnd.stable = heldWas == nil || sameBatch(heldWas, batchOf(held))
		held = w.Swap()
		heldWas = batchOf(held)
		wnd.b = heldWas
		wins = append(wins, wnd)
	}
	wg.Wait()
	// reconstruct the delivery order from the object list entries
	byKey := map[string]*done{}
	for i := range logs {
		for k := range logs[i] {
			d := &logs[i][k]
			if d.acc {
				byKey[key(d.e)] = d
			}
		}
	}
	_ = enc.Encode(line{Ev: "Reset", ID: id, Slice: pb(slice)})
	emit := func(d *done) {
		_ = enc.Encode(line{Ev: "Deliver", E: d.e, Acc: pb(d.acc), Q: ps([]string{"?"}), P: pi(d.p), J: pi(d.j)})
	}
	// events the predicates refused have no place in the order: first
	for i := range logs {
		for k := range logs[i] {
			if !logs[i][k].acc {
				d := logs[i][k]
				d.j = 0
				d.p = -d.p
				emit(&d)
			}
		}
	}
	emitted := map[*done]bool{}
	for _, wnd := range wins {
		// the ConfigMap events of the window were delivered one after the other by the swapper: each goes where the
		// first entry with its key is
		next := 0
		emitCMs := func(upto string) {
			for next < len(wnd.cms) {
				d := &wnd.cms[next]
				next++
				emit(d)
				if d.acc && key(d.e) == upto {
					return
				}
			}
		}
		for _, o := range wnd.b.Objs {
			if strings.Contains(o, "/ConfigMap:") {
				emitCMs(o)
				continue
			}
			if d := byKey[o]; d != nil && !emitted[d] {
				emitted[d] = true
				emit(d)
			}
		}
		emitCMs("")
		_ = enc.Encode(line{Ev: "Swap", B: wnd.b, Stable: pb(wnd.stable)})
	}
	// accepted events found in no batch: they stay in the last window of the model
	lost := 0
	for _, d := range byKey {
		if !emitted[d] {
			lost++
			emit(d)
		}
	}
	_ = enc.Encode(line{Ev: "Counts", Nf: pi(int(atomic.LoadInt64(&nf))), Np: pi(int(atomic.LoadInt64(&np)))})
	_ = lost
}

func main() {
	mode := flag.String("mode", "seq", "seq | conc")
	in := flag.String("in", "", "seq: schedules (json list of lists of steps)")
	outf := flag.String("out", "", "ndjson")
	work := flag.String("work", "", "scratch")
	seed := flag.Int64("seed", 1, "seed")
	iters := flag.Int("iters", 20, "conc: executions")
	producers := flag.Int("producers", 6, "conc: informer goroutines")
	per := flag.Int("per", 150, "conc: events per goroutine")
	flag.Parse()
	world.Chdir()
	w, err := world.New(*work, nil, pipeline.Options{ConfigMapName: "ingress/cfg", TCPConfigMapName: "ingress/tcp", Gateway: true, PodNamespace: "ingress"})
	if err != nil {
		fmt.Fprintln(os.Stderr, err)
		os.Exit(2)
	}
	defer w.Close()
	f, _ := os.Create(*outf)
	defer f.Close()
	enc := json.NewEncoder(f)
	enc.SetEscapeHTML(false)
	n := 0
	if *mode == "seq" {
		data, err := os.ReadFile(*in)
		if err != nil {
			fmt.Fprintln(os.Stderr, err)
			os.Exit(2)
		}
		var scheds [][]step
		if err := json.Unmarshal(data, &scheds); err != nil {
			fmt.Fprintln(os.Stderr, err)
			os.Exit(2)
		}
		for i, s := range scheds {
			runSeq(w.P, fmt.Sprintf("s%d", i), s, enc)
		}
		n = len(scheds)
	} else {
		for i := 0; i < *iters; i++ {
			runtime.GOMAXPROCS(2 + (i % 15))
			runConc(w.P, fmt.Sprintf("c%d-%d", *seed, i), *seed*1000+int64(i), *producers, *per, enc)
		}
		n = *iters
	}
	_ = api.Namespace{}
	_ = metav1.ObjectMeta{}
	fmt.Printf("{\"executions\":%d}\n", n)
}
