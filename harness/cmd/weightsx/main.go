// weightsx runs weight vectors (enumerated by TLC from spec/Weights.tla) through the real RebalanceWeight and, for a
// part of them, through the whole pipeline with blue/green annotations, recording the weights written on the server lines.
package main

import (
	"encoding/json"
	"flag"
	"fmt"
	"os"
	"strings"
	"sync"

	convutils "github.com/jcmoraisjr/haproxy-ingress/pkg/converters/utils"

	"verifharness/cfgnf"
	"verifharness/kobj"
	"verifharness/pipeline"
	"verifharness/world"
)

type input struct {
	W  []int `json:"w"`
	L  []int `json:"l"`
	IW int   `json:"iw"`
}

type rec struct {
	ID   string `json:"id"`
	Src  string `json:"src"`  // func | pipeline
	Mode string `json:"mode"` // deploy | pod
	// weights written on the servers that must not get traffic: not-ready pods of the groups (kept as draining servers by
	// drain-support) and a pod that matches no group
	Drain   []int `json:"drain"`
	NoGroup []int `json:"nogroup"`
	W       []int `json:"w"`
	L       []int `json:"l"`
	IW      int   `json:"iw"`
	Out     []int `json:"out"`
}

func direct(i int, in input) rec {
	cl := make([]*convutils.WeightCluster, len(in.W))
	for k := range in.W {
		cl[k] = &convutils.WeightCluster{Weight: in.W[k], Length: in.L[k]}
	}
	convutils.RebalanceWeight(cl, in.IW)
	out := make([]int, len(cl))
	for k := range cl {
		out[k] = cl[k].Weight
		if in.L[k] == 0 {
			out[k] = 0 // no server carries it
		}
	}
	return rec{ID: fmt.Sprintf("f%d", i), Src: "func", Mode: "deploy", W: in.W, L: in.L, IW: in.IW, Out: out, Drain: []int{}, NoGroup: []int{}}
}

func viaPipeline(base string, i int, in input, mode string) (rec, error) {
	r := rec{ID: fmt.Sprintf("p%d-%s", i, mode), Src: "pipeline", Mode: mode, W: in.W, L: in.L, IW: in.IW}
	r.Drain, r.NoGroup = []int{}, []int{}
	w, err := world.New(base, nil, pipeline.Options{WatchWithoutClass: true, ConfigMapName: "ingress/cfg"})
	if err != nil {
		return r, err
	}
	defer w.Close()
	p := w.P
	extra := i%3 == 0 // also a draining pod per group and a pod outside every group
	if extra {
		p.Apply(kobj.ConfigMap("ingress", "cfg", map[string]string{"drain-support": "true"}))
	}
	var notReady, drainIPs, strayIPs []string
	groups := []string{"blue", "green", "red"}
	var bal []string
	var ready []string
	n := 0
	// every second case uses a distinct label name per group, pods carrying only the label of their own group
	distinct := i%2 == 1
	for g := range in.W {
		labelName := "group"
		if distinct {
			labelName = "lbl" + groups[g]
		}
		bal = append(bal, fmt.Sprintf("%s=%s=%d", labelName, groups[g], in.W[g]))
		for k := 0; k < in.L[g]; k++ {
			n++
			name := fmt.Sprintf("pod-%s-%d", groups[g], k)
			ip := fmt.Sprintf("10.%d.0.%d", g+1, k+1)
			p.Apply(kobj.Pod("d", name, ip, map[string]string{labelName: groups[g], "app": "app"}, false))
			ready = append(ready, ip+":"+name)
		}
		if extra && in.L[g] > 0 {
			name := fmt.Sprintf("pod-%s-drain", groups[g])
			ip := fmt.Sprintf("10.%d.1.1", g+1)
			p.Apply(kobj.Pod("d", name, ip, map[string]string{labelName: groups[g], "app": "app"}, false))
			notReady = append(notReady, ip+":"+name)
			drainIPs = append(drainIPs, ip+":8080")
		}
	}
	if extra {
		p.Apply(kobj.Pod("d", "pod-stray", "10.9.0.1", map[string]string{"app": "app"}, false))
		ready = append(ready, "10.9.0.1:pod-stray")
		strayIPs = append(strayIPs, "10.9.0.1:8080")
	}
	p.Apply(kobj.Service("d", "app", nil, ":8080:8080"))
	p.Apply(kobj.Endpoints("d", "app", ready, notReady, ":8080"))
	ann := map[string]string{"blue-green-balance": strings.Join(bal, ","), "blue-green-mode": mode, "initial-weight": fmt.Sprint(in.IW)}
	p.Apply(kobj.Ingress("d", "i1", 1, ann, nil, []kobj.Rule{{Host: "a.local", Paths: []kobj.Path{{Path: "/", Svc: "app", Port: "8080"}}}}, nil, nil))
	if _, err := p.ReconcilePending(false); err != nil {
		return r, err
	}
	raw, err := cfgnf.Load(w.Opt.CfgDir(), w.Opt.Dir)
	if err != nil {
		return r, err
	}
	weights := cfgnf.ServerWeights(raw, "d_app_8080")
	for _, ip := range drainIPs {
		if wv, ok := weights[ip]; ok {
			r.Drain = append(r.Drain, wv)
		} else {
			return r, fmt.Errorf("draining server %s not found in the configuration", ip)
		}
	}
	for _, ip := range strayIPs {
		if wv, ok := weights[ip]; ok {
			r.NoGroup = append(r.NoGroup, wv)
		}
	}
	r.Out = make([]int, len(in.W))
	for g := range in.W {
		r.Out[g] = 0
		first := true
		for k := 0; k < in.L[g]; k++ {
			ip := fmt.Sprintf("10.%d.0.%d:8080", g+1, k+1)
			wv, ok := weights[ip]
			if !ok {
				return r, fmt.Errorf("server %s not found in the configuration", ip)
			}
			if first {
				r.Out[g] = wv
				first = false
			} else if r.Out[g] != wv {
				r.Out[g] = -1 // servers of one group must carry the same weight
			}
		}
	}
	return r, nil
}

func main() {
	in := flag.String("in", "", "inputs (json array)")
	outf := flag.String("out", "", "ndjson")
	work := flag.String("work", "", "scratch dir")
	npipe := flag.Int("pipeline", 200, "inputs also run through the pipeline")
	flag.Parse()
	world.Chdir()
	data, err := os.ReadFile(*in)
	if err != nil {
		fmt.Fprintln(os.Stderr, err)
		os.Exit(2)
	}
	var ins []input
	if err := json.Unmarshal(data, &ins); err != nil {
		fmt.Fprintln(os.Stderr, err)
		os.Exit(2)
	}
	f, _ := os.Create(*outf)
	defer f.Close()
	enc := json.NewEncoder(f)
	for i, x := range ins {
		_ = enc.Encode(direct(i, x))
	}
	step := 1
	if *npipe > 0 && len(ins) > *npipe {
		step = len(ins) / *npipe
	}
	var mu sync.Mutex
	var wg sync.WaitGroup
	sem := make(chan struct{}, 16)
	var firstErr error
	np := 0
	for i := 0; i < len(ins) && *npipe > 0; i += step {
		for _, mode := range []string{"deploy", "pod"} {
			wg.Add(1)
			sem <- struct{}{}
			np++
			go func(i int, mode string) {
				defer wg.Done()
				defer func() { <-sem }()
				r, err := viaPipeline(*work, i, ins[i], mode)
				mu.Lock()
				defer mu.Unlock()
				if err != nil {
					if firstErr == nil {
						firstErr = err
					}
					return
				}
				_ = enc.Encode(r)
			}(i, mode)
		}
	}
	wg.Wait()
	if firstErr != nil {
		fmt.Fprintln(os.Stderr, firstErr)
		os.Exit(2)
	}
	fmt.Printf("{\"direct\":%d,\"pipeline\":%d}\n", len(ins), np)
}
