module verifharness

go 1.23.0

require (
	github.com/jcmoraisjr/haproxy-ingress v0.0.0
	k8s.io/client-go v0.32.3
)

require (
	github.com/go-logr/logr v1.4.2 // indirect
	golang.org/x/sync v0.12.0 // indirect
	golang.org/x/time v0.10.0 // indirect
	k8s.io/apimachinery v0.32.3 // indirect
	k8s.io/klog/v2 v2.130.1 // indirect
	k8s.io/utils v0.0.0-20241210054802-24370beab758 // indirect
)

replace github.com/jcmoraisjr/haproxy-ingress => /repo
