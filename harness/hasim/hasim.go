// Package hasim is a simulated HAProxy: it listens on the admin and master unix sockets
// that pkg/haproxy/socket dials (external mode), loads what `haproxy -f <cfgdir>` would load
// on `reload`, applies `set server` / `set ssl cert` / `commit ssl cert` to its runtime table
// and answers with HAProxy's messages. It is the executable twin of the `run` variable of
// spec/DynUpdate.tla. A fault plan makes individual commands or reloads fail.
package hasim

import (
	"bufio"
	"crypto/sha1"
	"encoding/hex"
	"fmt"
	"net"
	"os"
	"path/filepath"
	"regexp"
	"sort"
	"strconv"
	"strings"
	"sync"
	"time"
)

// Server is one server line as HAProxy holds it.
type Server struct {
	Name   string `json:"name"`
	Addr   string `json:"addr"`
	Port   int    `json:"port"`
	Weight int    `json:"weight"`
	State  string `json:"state"` // ready | drain | maint
	Cookie string `json:"cookie"`
	ID     int    `json:"id"`
}

// Backend is a backend section as far as runtime updates are concerned.
type Backend struct {
	Name           string    `json:"name"`
	Servers        []*Server `json:"servers"`
	CookiePreserve bool      `json:"cookiePreserve"`
	HasCookie      bool      `json:"hasCookie"`
}

// Runtime is the table of a running HAProxy.
type Runtime struct {
	Backends map[string]*Backend `json:"backends"`
	Certs    map[string]string   `json:"certs"` // certificate file -> digest of the content loaded
	Sections map[string]int      `json:"-"`     // section "kind name" -> occurrences
}

// Cmd is a command received on the admin socket with the reply given.
type Cmd struct {
	Text  string `json:"cmd"`
	Reply string `json:"reply"`
	Fault string `json:"fault,omitempty"`
}

// Sim is the simulated process.
type Sim struct {
	mu         sync.Mutex
	CfgDir     string
	adminPath  string
	masterPath string
	adminL     net.Listener
	masterL    net.Listener
	Running    *Runtime
	pendingCrt map[string]string // set ssl cert transactions: file -> payload digest
	Reloads    int               // successful reloads
	ReloadReqs int               // `reload` commands received
	ReloadAt   []time.Time
	failed     int
	Cmds       []Cmd
	cmdIdx     int
	// fault plan
	FaultAt       map[int]string // admin command index (since ResetPlan) -> nosuch | garbage | drop | dropafter | commitfail
	FailReloads   int            // the next n reloads fail (old worker keeps running)
	DropReloadReq int            // the next n `reload` commands get no reply (connection closed)
	closed        bool
}

var (
	reSrvTmpl = regexp.MustCompile(`^\s+server-template\s+(\S+)\s+(\d+)\s+(\S+)`)
	reServer  = regexp.MustCompile(`^\s+server\s+(\S+)\s+(\S+):(\d+)(.*)$`)
	reWeight  = regexp.MustCompile(`\sweight\s+(\d+)`)
	reCookie  = regexp.MustCompile(`\scookie\s+(\S+)`)
	reID      = regexp.MustCompile(`\sid\s+(\d+)`)
	reCrtLst  = regexp.MustCompile(`\scrt-list\s+(\S+)`)
	reCrt     = regexp.MustCompile(`\scrt\s+(\S+)`)
)

func digestFile(path string) string {
	b, err := os.ReadFile(path)
	if err != nil {
		return "missing"
	}
	s := sha1.Sum(b)
	return hex.EncodeToString(s[:])
}

func digestString(s string) string {
	h := sha1.Sum([]byte(s))
	return hex.EncodeToString(h[:])
}

// LoadRuntime reads every *.cfg of the directory the way `haproxy -f dir` does.
func LoadRuntime(cfgDir string) (*Runtime, error) {
	files, err := filepath.Glob(filepath.Join(cfgDir, "*.cfg"))
	if err != nil {
		return nil, err
	}
	sort.Strings(files)
	rt := &Runtime{Backends: map[string]*Backend{}, Certs: map[string]string{}, Sections: map[string]int{}}
	for _, f := range files {
		if st, err := os.Stat(f); err == nil && st.IsDir() {
			// a write fault is being injected on this file (harness): the old content is what a reader sees
			f = filepath.Join(f, ".orig")
			if _, err := os.Stat(f); err != nil {
				continue
			}
		}
		fh, err := os.Open(f)
		if err != nil {
			return nil, err
		}
		var cur *Backend
		sc := bufio.NewScanner(fh)
		sc.Buffer(make([]byte, 1024*1024), 16*1024*1024)
		for sc.Scan() {
			line := sc.Text()
			if line == "" || strings.HasPrefix(strings.TrimSpace(line), "#") {
				continue
			}
			if line[0] != ' ' && line[0] != '\t' {
				fields := strings.Fields(line)
				cur = nil
				name := ""
				if len(fields) > 1 {
					name = fields[1]
				}
				rt.Sections[fields[0]+" "+name]++
				if fields[0] == "backend" && len(fields) > 1 {
					cur = &Backend{Name: fields[1]}
					rt.Backends[cur.Name] = cur
				}
				continue
			}
			for _, m := range reCrtLst.FindAllStringSubmatch(line, -1) {
				loadCrtList(rt, m[1])
			}
			if strings.HasPrefix(strings.TrimSpace(line), "bind ") {
				for _, m := range reCrt.FindAllStringSubmatch(line, -1) {
					rt.Certs[m[1]] = certDigest(m[1])
				}
			}
			if cur == nil {
				continue
			}
			t := strings.TrimSpace(line)
			if strings.HasPrefix(t, "cookie ") {
				cur.HasCookie = true
				cur.CookiePreserve = strings.Contains(t+" ", " preserve ")
			}
			if m := reSrvTmpl.FindStringSubmatch(line); m != nil {
				// server-template <prefix> <n> <fqdn>[:port] ...: n slots filled by DNS discovery
				n, _ := strconv.Atoi(m[2])
				weight := 1
				if w := reWeight.FindStringSubmatch(line + " "); w != nil {
					weight, _ = strconv.Atoi(w[1])
				}
				for k := 1; k <= n; k++ {
					cur.Servers = append(cur.Servers, &Server{Name: fmt.Sprintf("%s%d", m[1], k), Addr: m[3], Weight: weight, State: "ready"})
				}
			}
			if m := reServer.FindStringSubmatch(line); m != nil {
				port, _ := strconv.Atoi(m[3])
				s := &Server{Name: m[1], Addr: m[2], Port: port, Weight: 1, State: "ready"}
				rest := m[4] + " "
				if strings.Contains(rest, " disabled ") {
					s.State = "maint"
				}
				if w := reWeight.FindStringSubmatch(rest); w != nil {
					s.Weight, _ = strconv.Atoi(w[1])
				}
				if c := reCookie.FindStringSubmatch(rest); c != nil {
					s.Cookie = c[1]
				}
				if c := reID.FindStringSubmatch(rest); c != nil {
					s.ID, _ = strconv.Atoi(c[1])
				}
				cur.Servers = append(cur.Servers, s)
			}
		}
		fh.Close()
	}
	return rt, nil
}

// certDigest is the digest of what HAProxy loads for a certificate file; as the dynamic updater does,
// empty lines are ignored (`set ssl cert` payloads cannot carry them).
func certDigest(path string) string {
	b, err := os.ReadFile(realPath(path))
	if err != nil {
		return "missing"
	}
	return digestString(normPEM(string(b)))
}

func normPEM(s string) string {
	var out []string
	for _, l := range strings.Split(s, "\n") {
		if strings.TrimSpace(l) != "" {
			out = append(out, l)
		}
	}
	return strings.Join(out, "\n")
}

// realPath: a write fault injected by the harness replaces the target by a directory that keeps the old content in
// .orig -- a reader (HAProxy) still sees the old file
func realPath(path string) string {
	if st, err := os.Stat(path); err == nil && st.IsDir() {
		return filepath.Join(path, ".orig")
	}
	return path
}

func loadCrtList(rt *Runtime, path string) {
	b, err := os.ReadFile(realPath(path))
	if err != nil {
		rt.Certs["crt-list:"+path] = "missing"
		return
	}
	for _, l := range strings.Split(string(b), "\n") {
		f := strings.Fields(l)
		if len(f) == 0 || strings.HasPrefix(f[0], "#") {
			continue
		}
		rt.Certs[f[0]] = certDigest(f[0])
		// [ca-file <file> verify ... crl-file <file>]: loaded with the crt-list, replaced by a reload only
		for i := 1; i+1 < len(f); i++ {
			if k := strings.TrimPrefix(f[i], "["); k == "ca-file" || k == "crl-file" {
				file := strings.TrimSuffix(f[i+1], "]")
				rt.Certs[k+":"+file] = digestFile(realPath(file))
			}
		}
	}
}

// Start listens on both sockets.
func Start(cfgDir, adminSock, masterSock string) (*Sim, error) {
	s := &Sim{CfgDir: cfgDir, adminPath: adminSock, masterPath: masterSock, FaultAt: map[int]string{},
		pendingCrt: map[string]string{}}
	_ = os.Remove(adminSock)
	_ = os.Remove(masterSock)
	var err error
	if s.adminL, err = net.Listen("unix", adminSock); err != nil {
		return nil, err
	}
	if s.masterL, err = net.Listen("unix", masterSock); err != nil {
		return nil, err
	}
	go s.serve(s.adminL, s.handleAdmin)
	go s.serve(s.masterL, s.handleMaster)
	return s, nil
}

func (s *Sim) Close() {
	s.mu.Lock()
	s.closed = true
	s.mu.Unlock()
	s.adminL.Close()
	s.masterL.Close()
}

func (s *Sim) serve(l net.Listener, h func(net.Conn)) {
	for {
		c, err := l.Accept()
		if err != nil {
			return
		}
		go h(c)
	}
}

// Freeze runs f while the simulated HAProxy cannot start a reload (used by the harness to change files atomically).
func (s *Sim) Freeze(f func()) {
	s.mu.Lock()
	defer s.mu.Unlock()
	f()
}

// ResetPlan clears the fault plan and the per-update command counter and log.
func (s *Sim) ResetPlan() {
	s.mu.Lock()
	defer s.mu.Unlock()
	s.FaultAt = map[int]string{}
	s.cmdIdx = 0
	s.Cmds = nil
	s.FailReloads = 0
	s.DropReloadReq = 0
}

// SetPlan installs a fault plan for the next update.
func (s *Sim) SetPlan(faultAt map[int]string, failReloads, dropReloadReq int) {
	s.mu.Lock()
	defer s.mu.Unlock()
	s.FaultAt = faultAt
	s.cmdIdx = 0
	s.Cmds = nil
	s.FailReloads = failReloads
	s.DropReloadReq = dropReloadReq
}

// Snapshot returns counters and the command log.
func (s *Sim) Snapshot() (reloads, reloadReqs int, cmds []Cmd) {
	s.mu.Lock()
	defer s.mu.Unlock()
	return s.Reloads, s.ReloadReqs, append([]Cmd(nil), s.Cmds...)
}

func (s *Sim) ReloadTimes() []time.Time {
	s.mu.Lock()
	defer s.mu.Unlock()
	return append([]time.Time(nil), s.ReloadAt...)
}

// RunningCopy returns a deep copy of the runtime table (nil before the first reload).
func (s *Sim) RunningCopy() *Runtime {
	s.mu.Lock()
	defer s.mu.Unlock()
	return s.Running.Copy()
}

func (r *Runtime) Copy() *Runtime {
	if r == nil {
		return nil
	}
	c := &Runtime{Backends: map[string]*Backend{}, Certs: map[string]string{}, Sections: map[string]int{}}
	for k, b := range r.Backends {
		nb := &Backend{Name: b.Name, CookiePreserve: b.CookiePreserve, HasCookie: b.HasCookie}
		for _, sv := range b.Servers {
			x := *sv
			nb.Servers = append(nb.Servers, &x)
		}
		c.Backends[k] = nb
	}
	for k, v := range r.Certs {
		c.Certs[k] = v
	}
	for k, v := range r.Sections {
		c.Sections[k] = v
	}
	return c
}

// ---- admin socket

func readLine(r *bufio.Reader) (string, error) {
	l, err := r.ReadString('\n')
	return strings.TrimRight(l, "\n"), err
}

func (s *Sim) handleAdmin(c net.Conn) {
	defer c.Close()
	r := bufio.NewReader(c)
	interactive := false
	// a connection is served by the worker that accepted it: after a reload an old connection
	// still talks to the old, leaving, worker and not to the one that loaded the new configuration
	s.mu.Lock()
	worker := s.Running
	s.mu.Unlock()
	for {
		line, err := readLine(r)
		if err != nil {
			return
		}
		if line == "prompt" {
			interactive = true
			fmt.Fprint(c, "\n> ")
			continue
		}
		payload := ""
		if strings.HasSuffix(line, "<<") {
			// payload until an empty line
			var pl []string
			for {
				l, err := readLine(r)
				if err != nil || l == "" {
					break
				}
				pl = append(pl, l)
			}
			payload = strings.Join(pl, "\n")
		}
		reply, drop := s.admin(worker, line, payload)
		if drop {
			return
		}
		if interactive {
			fmt.Fprintf(c, "%s\n> ", reply)
		} else {
			fmt.Fprintf(c, "%s\n", reply)
			return
		}
	}
}

func (s *Sim) findServer(rt *Runtime, ref string) *Server {
	p := strings.SplitN(ref, "/", 2)
	if len(p) != 2 || rt == nil {
		return nil
	}
	b := rt.Backends[p[0]]
	if b == nil {
		return nil
	}
	for _, sv := range b.Servers {
		if sv.Name == p[1] {
			return sv
		}
	}
	return nil
}

func (s *Sim) admin(worker *Runtime, line, payload string) (reply string, drop bool) {
	s.mu.Lock()
	defer s.mu.Unlock()
	idx := s.cmdIdx
	s.cmdIdx++
	fault := s.FaultAt[idx]
	if fault == "commitfail" && !strings.HasPrefix(line, "commit ssl cert") {
		fault = ""
	}
	logit := func(r string) {
		t := line
		if payload != "" {
			t += " [payload " + digestString(normPEM(payload))[:8] + "]"
		}
		s.Cmds = append(s.Cmds, Cmd{Text: t, Reply: r, Fault: fault})
	}
	switch fault {
	case "nosuch":
		logit("No such server.")
		return "No such server.\n", false
	case "garbage":
		logit("unexpected answer")
		return "unexpected answer\n", false
	case "drop":
		logit("<connection closed>")
		return "", true
	case "commitfail":
		if strings.HasPrefix(line, "commit ssl cert") {
			logit("Can't commit")
			return "Can't commit " + line + "\n", false
		}
	}
	reply = s.apply(worker, line, payload)
	logit(strings.TrimRight(reply, "\n"))
	if fault == "dropafter" {
		return "", true
	}
	return reply, false
}

func (s *Sim) apply(rt *Runtime, line, payload string) string {
	f := strings.Fields(line)
	switch {
	case len(f) >= 4 && f[0] == "set" && f[1] == "server":
		sv := s.findServer(rt, f[2])
		if sv == nil {
			return "No such server.\n"
		}
		switch f[3] {
		case "state":
			if len(f) < 5 {
				return "'set server <srv> state' expects 'ready', 'drain' and 'maint'.\n"
			}
			switch f[4] {
			case "ready", "drain", "maint":
				sv.State = f[4]
				return ""
			}
			return "'set server <srv> state' expects 'ready', 'drain' and 'maint'.\n"
		case "weight":
			if len(f) < 5 {
				return "Require <weight> or <weight%>.\n"
			}
			w, err := strconv.Atoi(f[4])
			if err != nil || w < 0 || w > 256 {
				return "Invalid weight.\n"
			}
			sv.Weight = w
			return ""
		case "addr":
			if len(f) < 5 {
				return "set server <b>/<s> addr requires an address and optionally a port.\n"
			}
			oldAddr, oldPort := sv.Addr, sv.Port
			newAddr, newPort := f[4], sv.Port
			if len(f) >= 7 && f[5] == "port" {
				p, err := strconv.Atoi(f[6])
				if err != nil {
					return "Invalid port.\n"
				}
				newPort = p
			}
			if net.ParseIP(newAddr) == nil {
				return "Invalid addr '" + newAddr + "'\n"
			}
			sv.Addr, sv.Port = newAddr, newPort
			var msg []string
			if oldAddr != newAddr {
				msg = append(msg, fmt.Sprintf("IP changed from '%s' to '%s'", oldAddr, newAddr))
			} else {
				msg = append(msg, "no need to change the addr")
			}
			if oldPort != newPort {
				msg = append(msg, fmt.Sprintf("port changed from '%d' to '%d'", oldPort, newPort))
			} else {
				msg = append(msg, "no need to change the port")
			}
			if oldAddr == newAddr && oldPort == newPort {
				return "no need to change the addr, no need to change the port by 'stats socket command'\n"
			}
			return strings.Join(msg, ", ") + " by 'stats socket command'\n"
		}
		return "Unknown set server command.\n"
	case len(f) >= 4 && f[0] == "set" && f[1] == "ssl" && f[2] == "cert":
		file := f[3]
		if rt == nil {
			return "Can't replace a certificate which is not referenced by the configuration!\n"
		}
		if _, ok := rt.Certs[file]; !ok {
			return "Can't replace a certificate which is not referenced by the configuration!\n"
		}
		s.pendingCrt[file] = digestString(normPEM(payload))
		return "Transaction created for certificate " + file + "!\n"
	case len(f) >= 4 && f[0] == "commit" && f[1] == "ssl" && f[2] == "cert":
		file := f[3]
		d, ok := s.pendingCrt[file]
		if !ok {
			return "No ongoing transaction! !\n"
		}
		delete(s.pendingCrt, file)
		rt.Certs[file] = d
		return "Committing " + file + ".\nSuccess!\n"
	case len(f) >= 2 && f[0] == "show" && f[1] == "info":
		return "Name: HAProxy\nIdle_pct: 100\n"
	case len(f) >= 3 && f[0] == "show" && f[1] == "servers":
		return "1\n# be_id be_name srv_id srv_name\n"
	case len(f) >= 2 && f[0] == "show" && f[1] == "sess":
		return "\n"
	}
	return "Unknown command. Please enter one of the following commands only :\n"
}

// ---- master socket

func (s *Sim) handleMaster(c net.Conn) {
	defer c.Close()
	r := bufio.NewReader(c)
	line, err := readLine(r)
	if err != nil {
		return
	}
	if line == "prompt" {
		fmt.Fprint(c, "master> ")
		line, err = readLine(r)
		if err != nil {
			return
		}
	}
	switch strings.TrimSpace(line) {
	case "reload":
		s.mu.Lock()
		s.ReloadReqs++
		if s.DropReloadReq > 0 {
			s.DropReloadReq--
			s.mu.Unlock()
			return
		}
		s.ReloadAt = append(s.ReloadAt, time.Now())
		if s.FailReloads > 0 {
			s.FailReloads--
			s.failed++
		} else {
			rt, err := LoadRuntime(s.CfgDir)
			if err != nil {
				s.failed++
			} else {
				s.Running = rt
				s.pendingCrt = map[string]string{}
				s.failed = 0
				s.Reloads++
			}
		}
		s.mu.Unlock()
		fmt.Fprint(c, "\n")
	case "show proc":
		s.mu.Lock()
		failed, reloads := s.failed, s.Reloads
		s.mu.Unlock()
		master := fmt.Sprintf("%d", reloads)
		if failed > 0 {
			master = fmt.Sprintf("%d [failed: %d]", reloads, failed)
		}
		fmt.Fprintf(c, "%-16s%-16s%-16s%-16s%s\n", "#<PID>", "<type>", "<reloads>", "<uptime>", "<version>")
		fmt.Fprintf(c, "%-16s%-16s%-16s %-15s%s\n", "1", "master", master, "0d00h01m28s", "2.6.0-sim")
		fmt.Fprintf(c, "# workers\n")
		fmt.Fprintf(c, "%-16s%-16s%-16s%-16s%s\n", "3", "worker", "0", "0d00h00m00s", "2.6.0-sim")
		fmt.Fprintf(c, "# old workers\n# programs\n\n")
	default:
		fmt.Fprint(c, "Unknown command\n\n")
	}
}

// ---- projections compared by the specification

// SrvProj is what a request experiences of a server.
type SrvProj struct {
	Name   string `json:"name"`
	Up     bool   `json:"up"` // not in maintenance
	Addr   string `json:"addr"`
	Port   int    `json:"port"`
	Weight int    `json:"weight"` // effective: 0 when draining
	Cookie string `json:"cookie"` // only when the backend preserves cookies
}

// Project gives, per backend, the servers in name order: disabled slots keep only their name.
func (r *Runtime) Project() map[string][]SrvProj {
	res := map[string][]SrvProj{}
	if r == nil {
		return res
	}
	for name, b := range r.Backends {
		var l []SrvProj
		for _, s := range b.Servers {
			p := SrvProj{Name: s.Name}
			if s.State != "maint" {
				p.Up = true
				p.Addr, p.Port, p.Weight = s.Addr, s.Port, s.Weight
				if s.State == "drain" {
					p.Weight = 0
				}
				if b.CookiePreserve {
					p.Cookie = s.Cookie
				}
			}
			l = append(l, p)
		}
		sort.Slice(l, func(i, j int) bool { return l[i].Name < l[j].Name })
		res[name] = l
	}
	return res
}
