// Package hist defines the history language of the controller drivers (batched Kubernetes
// changes, reconciliations, faults) and materialises its operations as Kubernetes objects.
package hist

import (
	"encoding/json"
	"fmt"
	"strings"

	api "k8s.io/api/core/v1"
	networking "k8s.io/api/networking/v1"
	"sigs.k8s.io/controller-runtime/pkg/client"

	"verifharness/kobj"
)

// Op is one change of one object.
type Op struct {
	Kind string `json:"kind"` // ing | svc | eps | sec | cm | class | pod
	Name string `json:"name"` // ns/name (class: name)
	Del  bool   `json:"del"`
	Tmpl string `json:"tmpl"` // label of the template the op was built from (for reports)
	// ing
	Created int               `json:"created"`
	Ann     map[string]string `json:"ann"`
	Class   *string           `json:"class"`
	Rules   []kobj.Rule       `json:"rules"`
	TLS     []kobj.TLS        `json:"tls"`
	Def     *kobj.Path        `json:"def"`
	// svc
	Ports []string `json:"ports"`
	// eps
	Ready    []string `json:"ready"`
	NotReady []string `json:"notready"`
	Ready2   []string `json:"ready2,omitempty"` // ready addresses of a second subset
	Ports2   []string `json:"ports2,omitempty"`
	// sec: "crt:<id>" certificate id, "bad" malformed, "auth:<user>:<pass>", "ca:<id>"
	Sec string `json:"sec"`
	// cm
	Data map[string]string `json:"data"`
	// class
	Controller string `json:"controller"`
	Params     string `json:"params"` // name of the parameters ConfigMap
	// pod
	IP          string            `json:"ip"`
	Labels      map[string]string `json:"labels"`
	Terminating bool              `json:"terminating"`
	// a spurious notification: the object is re-sent unchanged (ingress: with a new generation)
	Touch bool `json:"touch"`
}

// Fault of a step (C12).
type Fault struct {
	Point string `json:"point"` // file:<glob> | cmd:<index> | reload | reloadreq
	Kind  string `json:"kind"`
	Times int    `json:"times"`
}

// Step is a batch of changes followed by the reconciliations the queue would run.
type Step struct {
	Ops       []Op    `json:"ops"`
	FullFirst bool    `json:"fullfirst"`
	Shuffle   int64   `json:"shuffle"` // != 0: deliver the events of the batch in a permuted order
	Faults    []Fault `json:"faults"`
	NoSync    bool    `json:"nosync"` // do not reconcile after this batch (events pile up)
	// cluster state after this batch in the vocabulary of spec/Controller.tla (passed through to the trace)
	Cluster json.RawMessage `json:"cluster,omitempty"`
}

// Options of the controller under test.
type Options struct {
	Shards            int      `json:"shards"`
	DefaultSvc        string   `json:"defaultsvc"`
	DefaultCrt        string   `json:"defaultcrt"`
	WatchWithoutClass bool     `json:"watchwithoutclass"`
	ClassPrecedence   bool     `json:"classprecedence"`
	AllowCrossNS      bool     `json:"allowcrossns"`
	DisableKeywords   []string `json:"disablekeywords"`
	Gateway           bool     `json:"gateway"`
	ReloadInterval    int      `json:"reloadinterval_ms"`
}

// History is what a driver (TLC or the seeded random generator) proposes.
type History struct {
	ID    string  `json:"id"`
	Opt   Options `json:"opt"`
	Steps []Step  `json:"steps"`
}

func split(name string) (string, string) {
	if i := strings.Index(name, "/"); i >= 0 {
		return name[:i], name[i+1:]
	}
	return "", name
}

// Certs hands out stable certificates by id.
type Certs struct {
	m map[string][2][]byte
}

func NewCerts() *Certs { return &Certs{m: map[string][2][]byte{}} }

func (c *Certs) Get(id string) ([]byte, []byte) {
	if p, ok := c.m[id]; ok {
		return p[0], p[1]
	}
	dns := []string{id + ".local"}
	crt, key := kobj.SelfSigned(id, dns, 0)
	c.m[id] = [2][]byte{crt, key}
	return crt, key
}

// Object builds the Kubernetes object of an op.
func (o *Op) Object(certs *Certs) (client.Object, error) {
	ns, name := split(o.Name)
	switch o.Kind {
	case "ing":
		return kobj.Ingress(ns, name, o.Created, o.Ann, o.Class, o.Rules, o.TLS, o.Def), nil
	case "svc":
		return kobj.Service(ns, name, o.Ann, o.Ports...), nil
	case "eps":
		ports := o.Ports
		ep := kobj.Endpoints(ns, name, o.Ready, o.NotReady, ports...)
		if len(o.Ready2) > 0 {
			ep.Subsets = append(ep.Subsets, kobj.Endpoints(ns, name, o.Ready2, nil, o.Ports2...).Subsets...)
		}
		return ep, nil
	case "sec":
		data := map[string][]byte{}
		switch {
		case o.Del:
		case strings.HasPrefix(o.Sec, "crt:"):
			crt, key := certs.Get(o.Sec[4:])
			data["tls.crt"], data["tls.key"] = crt, key
		case o.Sec == "bad":
			data["tls.crt"], data["tls.key"] = []byte("not a certificate"), []byte("not a key")
		case o.Sec == "bad:mismatch":
			crt, _ := certs.Get(name)
			_, key := certs.Get(name + "-other")
			data["tls.crt"], data["tls.key"] = crt, key
		case o.Sec == "bad:nokey":
			crt, _ := certs.Get(name)
			data["tls.crt"] = crt
		case strings.HasPrefix(o.Sec, "auth:"):
			data["auth"] = []byte(strings.Replace(o.Sec[5:], ":", "::", 1) + "\n")
		case strings.HasPrefix(o.Sec, "ca:"):
			crt, _ := certs.Get(o.Sec[3:])
			data["ca.crt"] = crt
		case o.Sec == "empty":
		default:
			return nil, fmt.Errorf("unknown secret content %q", o.Sec)
		}
		sec := kobj.Secret(ns, name, data)
		if _, isTLS := data["tls.crt"]; isTLS {
			sec.Type = api.SecretTypeTLS
		}
		return sec, nil
	case "cm":
		return kobj.ConfigMap(ns, name, o.Data), nil
	case "class":
		var params *networking.IngressClassParametersReference
		if o.Params != "" {
			params = &networking.IngressClassParametersReference{Kind: "ConfigMap", Name: o.Params}
		}
		return kobj.IngressClass(name, o.Controller, params), nil
	case "pod":
		return kobj.Pod(ns, name, o.IP, o.Labels, o.Terminating), nil
	}
	return nil, fmt.Errorf("unknown op kind %q", o.Kind)
}
