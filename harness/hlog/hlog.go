// Package hlog is a silent types.Logger.
package hlog

type Silent struct{}

func (Silent) InfoV(v int, msg string, args ...interface{}) {}
func (Silent) Info(msg string, args ...interface{})         {}
func (Silent) Warn(msg string, args ...interface{})         {}
func (Silent) Error(msg string, args ...interface{})        {}
func (Silent) Fatal(msg string, args ...interface{})        { panic(msg) }
