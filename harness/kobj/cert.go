package kobj

import (
	"crypto/ecdsa"
	"crypto/elliptic"
	"crypto/rand"
	"crypto/x509"
	"crypto/x509/pkix"
	"encoding/pem"
	"math/big"
	"time"
)

func selfSigned(cn string, dns []string, days int) ([]byte, []byte) {
	priv, err := ecdsa.GenerateKey(elliptic.P256(), rand.Reader)
	if err != nil {
		panic(err)
	}
	if days <= 0 {
		days = 365
	}
	serial, _ := rand.Int(rand.Reader, big.NewInt(1<<62))
	tmpl := x509.Certificate{
		SerialNumber: serial,
		Subject:      pkix.Name{CommonName: cn},
		NotBefore:    time.Now().Add(-time.Hour),
		NotAfter:     time.Now().Add(time.Duration(days) * 24 * time.Hour),
		KeyUsage:     x509.KeyUsageDigitalSignature | x509.KeyUsageKeyEncipherment,
		ExtKeyUsage:  []x509.ExtKeyUsage{x509.ExtKeyUsageServerAuth},
		DNSNames:     dns,
	}
	der, err := x509.CreateCertificate(rand.Reader, &tmpl, &tmpl, &priv.PublicKey, priv)
	if err != nil {
		panic(err)
	}
	kb, err := x509.MarshalECPrivateKey(priv)
	if err != nil {
		panic(err)
	}
	return pem.EncodeToMemory(&pem.Block{Type: "CERTIFICATE", Bytes: der}),
		pem.EncodeToMemory(&pem.Block{Type: "EC PRIVATE KEY", Bytes: kb})
}
