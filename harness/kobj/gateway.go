package kobj

import (
	api "k8s.io/api/core/v1"
	metav1 "k8s.io/apimachinery/pkg/apis/meta/v1"
	gatewayv1 "sigs.k8s.io/gateway-api/apis/v1"
	gatewayv1alpha2 "sigs.k8s.io/gateway-api/apis/v1alpha2"
)

func Namespace(name string, labels map[string]string) *api.Namespace {
	n := &api.Namespace{ObjectMeta: Meta("", name, 0)}
	n.TypeMeta = metav1.TypeMeta{Kind: "Namespace", APIVersion: "v1"}
	n.Labels = labels
	return n
}

func GatewayClass(name, controller string) *gatewayv1.GatewayClass {
	c := &gatewayv1.GatewayClass{ObjectMeta: Meta("", name, 0)}
	c.TypeMeta = metav1.TypeMeta{Kind: "GatewayClass", APIVersion: "gateway.networking.k8s.io/v1"}
	c.Spec.ControllerName = gatewayv1.GatewayController(controller)
	return c
}

// Listener is the part of a listener the drivers vary.
type Listener struct {
	Name      string
	Port      int
	Protocol  string // HTTP | TCP
	Hostname  string
	Kinds     []string // allowedRoutes.kinds
	KindGroup *string  // group of every kinds entry (nil: not set)
	Exprs     []metav1.LabelSelectorRequirement
	CertRefs  []CertRef // tls.certificateRefs (mode Terminate)
	From      string    // Same | All | Selector | "" (nil)
	Selector  map[string]string
	SelNil    bool // From: Selector without selector
	NoAllowed bool // allowedRoutes nil
}

// CertRef is one tls.certificateRefs entry; Namespace "" = not set
type CertRef struct {
	Name      string
	Namespace string
}

func Gateway(ns, name, class string, listeners []Listener) *gatewayv1.Gateway {
	g := &gatewayv1.Gateway{ObjectMeta: Meta(ns, name, 0)}
	g.TypeMeta = metav1.TypeMeta{Kind: "Gateway", APIVersion: "gateway.networking.k8s.io/v1"}
	g.Spec.GatewayClassName = gatewayv1.ObjectName(class)
	for _, l := range listeners {
		gl := gatewayv1.Listener{Name: gatewayv1.SectionName(l.Name), Port: gatewayv1.PortNumber(l.Port), Protocol: gatewayv1.ProtocolType(l.Protocol)}
		if l.Hostname != "" {
			h := gatewayv1.Hostname(l.Hostname)
			gl.Hostname = &h
		}
		if len(l.CertRefs) > 0 {
			mode := gatewayv1.TLSModeTerminate
			gl.TLS = &gatewayv1.GatewayTLSConfig{Mode: &mode}
			for _, c := range l.CertRefs {
				ref := gatewayv1.SecretObjectReference{Name: gatewayv1.ObjectName(c.Name)}
				if c.Namespace != "" {
					n := gatewayv1.Namespace(c.Namespace)
					ref.Namespace = &n
				}
				gl.TLS.CertificateRefs = append(gl.TLS.CertificateRefs, ref)
			}
		}
		if !l.NoAllowed {
			ar := &gatewayv1.AllowedRoutes{}
			for _, k := range l.Kinds {
				rk := gatewayv1.RouteGroupKind{Kind: gatewayv1.Kind(k)}
				if l.KindGroup != nil {
					g := gatewayv1.Group(*l.KindGroup)
					rk.Group = &g
				}
				ar.Kinds = append(ar.Kinds, rk)
			}
			if l.From != "" {
				from := gatewayv1.FromNamespaces(l.From)
				ar.Namespaces = &gatewayv1.RouteNamespaces{From: &from}
				if l.From == "Selector" && !l.SelNil {
					ar.Namespaces.Selector = &metav1.LabelSelector{MatchLabels: l.Selector, MatchExpressions: l.Exprs}
				}
			}
			gl.AllowedRoutes = ar
		}
		g.Spec.Listeners = append(g.Spec.Listeners, gl)
	}
	return g
}

// ParentRef as the drivers vary it.
type ParentRef struct {
	Name      string
	Namespace string // "" = nil
	Section   string // "" = nil
	Kind      string // "" = nil
	Group     string // "" = nil
}

func parentRefs(refs []ParentRef) []gatewayv1.ParentReference {
	var res []gatewayv1.ParentReference
	for _, r := range refs {
		pr := gatewayv1.ParentReference{Name: gatewayv1.ObjectName(r.Name)}
		if r.Namespace != "" {
			n := gatewayv1.Namespace(r.Namespace)
			pr.Namespace = &n
		}
		if r.Section != "" {
			s := gatewayv1.SectionName(r.Section)
			pr.SectionName = &s
		}
		if r.Kind != "" {
			k := gatewayv1.Kind(r.Kind)
			pr.Kind = &k
		}
		if r.Group != "" {
			g := gatewayv1.Group(r.Group)
			pr.Group = &g
		}
		res = append(res, pr)
	}
	return res
}

// BackendRef: service, port and weight (-1 = nil)
type BackendRef struct {
	Svc    string
	Port   int
	Weight int
}

func backendRefs(refs []BackendRef) []gatewayv1.BackendRef {
	var res []gatewayv1.BackendRef
	for _, r := range refs {
		p := gatewayv1.PortNumber(r.Port)
		b := gatewayv1.BackendRef{BackendObjectReference: gatewayv1.BackendObjectReference{Name: gatewayv1.ObjectName(r.Svc), Port: &p}}
		if r.Weight >= 0 {
			w := int32(r.Weight)
			b.Weight = &w
		}
		res = append(res, b)
	}
	return res
}

func HTTPRoute(ns, name string, created int, refs []ParentRef, hostnames []string, path string, backs []BackendRef) *gatewayv1.HTTPRoute {
	r := &gatewayv1.HTTPRoute{ObjectMeta: Meta(ns, name, created)}
	r.TypeMeta = metav1.TypeMeta{Kind: "HTTPRoute", APIVersion: "gateway.networking.k8s.io/v1"}
	r.Spec.ParentRefs = parentRefs(refs)
	for _, h := range hostnames {
		r.Spec.Hostnames = append(r.Spec.Hostnames, gatewayv1.Hostname(h))
	}
	rule := gatewayv1.HTTPRouteRule{}
	if path != "" {
		t := gatewayv1.PathMatchPathPrefix
		rule.Matches = []gatewayv1.HTTPRouteMatch{{Path: &gatewayv1.HTTPPathMatch{Type: &t, Value: &path}}}
	}
	for _, b := range backendRefs(backs) {
		rule.BackendRefs = append(rule.BackendRefs, gatewayv1.HTTPBackendRef{BackendRef: b})
	}
	r.Spec.Rules = []gatewayv1.HTTPRouteRule{rule}
	return r
}

func TCPRoute(ns, name string, created int, refs []ParentRef, backs []BackendRef) *gatewayv1alpha2.TCPRoute {
	r := &gatewayv1alpha2.TCPRoute{ObjectMeta: Meta(ns, name, created)}
	r.TypeMeta = metav1.TypeMeta{Kind: "TCPRoute", APIVersion: "gateway.networking.k8s.io/v1alpha2"}
	r.Spec.ParentRefs = parentRefs(refs)
	r.Spec.Rules = []gatewayv1alpha2.TCPRouteRule{{BackendRefs: backendRefs(backs)}}
	return r
}
