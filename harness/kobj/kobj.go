// Package kobj builds the Kubernetes objects the drivers use.
package kobj

import (
	"strings"
	"time"

	api "k8s.io/api/core/v1"
	networking "k8s.io/api/networking/v1"
	metav1 "k8s.io/apimachinery/pkg/apis/meta/v1"
	"k8s.io/apimachinery/pkg/types"
	"k8s.io/apimachinery/pkg/util/intstr"
)

var Epoch = time.Date(2024, 1, 1, 0, 0, 0, 0, time.UTC)

func TS(sec int) metav1.Time { return metav1.NewTime(Epoch.Add(time.Duration(sec) * time.Second)) }

func Meta(ns, name string, created int) metav1.ObjectMeta {
	return metav1.ObjectMeta{Namespace: ns, Name: name, CreationTimestamp: TS(created), Generation: 1,
		Annotations: map[string]string{}}
}

// Path is one http path of an ingress rule: "path[:type]" -> service:port
type Path struct {
	Path string `json:"path"`
	Type string `json:"type"` // "", exact, prefix, impl
	Svc  string `json:"svc"`
	Port string `json:"port"` // number or name
}

type Rule struct {
	Host  string `json:"host"`
	Paths []Path `json:"paths"`
}

type TLS struct {
	Hosts  []string `json:"hosts"`
	Secret string   `json:"secret"`
}

func backend(svc, port string) networking.IngressBackend {
	if strings.HasPrefix(svc, "res:") {
		// a resource backend (not a Service)
		g := "example.io"
		return networking.IngressBackend{Resource: &api.TypedLocalObjectReference{APIGroup: &g, Kind: "Bucket", Name: svc[4:]}}
	}
	b := networking.IngressBackend{Service: &networking.IngressServiceBackend{Name: svc}}
	if n := intstr.Parse(port); n.Type == intstr.Int {
		b.Service.Port.Number = n.IntVal
	} else {
		b.Service.Port.Name = port
	}
	return b
}

func Ingress(ns, name string, created int, ann map[string]string, class *string, rules []Rule, tls []TLS, def *Path) *networking.Ingress {
	ing := &networking.Ingress{ObjectMeta: Meta(ns, name, created)}
	ing.TypeMeta = metav1.TypeMeta{Kind: "Ingress", APIVersion: "networking.k8s.io/v1"}
	for k, v := range ann {
		if !strings.Contains(k, "/") {
			k = "haproxy-ingress.github.io/" + k
		}
		ing.Annotations[k] = v
	}
	ing.Spec.IngressClassName = class
	for _, r := range rules {
		ir := networking.IngressRule{Host: r.Host}
		hv := &networking.HTTPIngressRuleValue{}
		for _, p := range r.Paths {
			hp := networking.HTTPIngressPath{Path: p.Path, Backend: backend(p.Svc, p.Port)}
			switch p.Type {
			case "exact":
				t := networking.PathTypeExact
				hp.PathType = &t
			case "prefix":
				t := networking.PathTypePrefix
				hp.PathType = &t
			case "impl":
				t := networking.PathTypeImplementationSpecific
				hp.PathType = &t
			}
			hv.Paths = append(hv.Paths, hp)
		}
		ir.HTTP = hv
		ing.Spec.Rules = append(ing.Spec.Rules, ir)
	}
	for _, t := range tls {
		ing.Spec.TLS = append(ing.Spec.TLS, networking.IngressTLS{Hosts: t.Hosts, SecretName: t.Secret})
	}
	if def != nil {
		b := backend(def.Svc, def.Port)
		ing.Spec.DefaultBackend = &b
	}
	return ing
}

// Port is "name:port:targetPort" (name may be empty, targetPort may be a name)
func Service(ns, name string, ann map[string]string, ports ...string) *api.Service {
	svc := &api.Service{ObjectMeta: Meta(ns, name, 0)}
	svc.TypeMeta = metav1.TypeMeta{Kind: "Service", APIVersion: "v1"}
	for k, v := range ann {
		if !strings.Contains(k, "/") {
			k = "haproxy-ingress.github.io/" + k
		}
		svc.Annotations[k] = v
	}
	svc.Spec.ClusterIP = "10.0.0.1"
	svc.Spec.Selector = map[string]string{"app": name}
	for _, p := range ports {
		f := strings.Split(p, ":")
		sp := api.ServicePort{Name: f[0]}
		n := intstr.Parse(f[1])
		sp.Port = n.IntVal
		sp.TargetPort = intstr.Parse(f[2])
		svc.Spec.Ports = append(svc.Spec.Ports, sp)
	}
	return svc
}

// EP is "ip[:pod]"; ports are "name:port"
func Endpoints(ns, name string, ready, notReady []string, ports ...string) *api.Endpoints {
	ep := &api.Endpoints{ObjectMeta: Meta(ns, name, 0)}
	ep.TypeMeta = metav1.TypeMeta{Kind: "Endpoints", APIVersion: "v1"}
	if len(ready) == 0 && len(notReady) == 0 {
		return ep
	}
	ss := api.EndpointSubset{}
	mk := func(s string) api.EndpointAddress {
		f := strings.SplitN(s, ":", 2)
		a := api.EndpointAddress{IP: f[0]}
		if len(f) > 1 && f[1] != "" {
			a.TargetRef = &api.ObjectReference{Kind: "Pod", Namespace: ns, Name: f[1]}
		}
		return a
	}
	for _, r := range ready {
		ss.Addresses = append(ss.Addresses, mk(r))
	}
	for _, r := range notReady {
		ss.NotReadyAddresses = append(ss.NotReadyAddresses, mk(r))
	}
	for _, p := range ports {
		f := strings.Split(p, ":")
		n := intstr.Parse(f[1])
		ss.Ports = append(ss.Ports, api.EndpointPort{Name: f[0], Port: n.IntVal, Protocol: api.ProtocolTCP})
	}
	ep.Subsets = []api.EndpointSubset{ss}
	return ep
}

func Secret(ns, name string, data map[string][]byte) *api.Secret {
	s := &api.Secret{ObjectMeta: Meta(ns, name, 0), Data: data}
	s.TypeMeta = metav1.TypeMeta{Kind: "Secret", APIVersion: "v1"}
	return s
}

func ConfigMap(ns, name string, data map[string]string) *api.ConfigMap {
	c := &api.ConfigMap{ObjectMeta: Meta(ns, name, 0), Data: data}
	c.TypeMeta = metav1.TypeMeta{Kind: "ConfigMap", APIVersion: "v1"}
	return c
}

func IngressClass(name, controller string, params *networking.IngressClassParametersReference) *networking.IngressClass {
	c := &networking.IngressClass{ObjectMeta: Meta("", name, 0)}
	c.TypeMeta = metav1.TypeMeta{Kind: "IngressClass", APIVersion: "networking.k8s.io/v1"}
	c.Spec.Controller = controller
	c.Spec.Parameters = params
	return c
}

func Pod(ns, name, ip string, labels map[string]string, terminating bool) *api.Pod {
	p := &api.Pod{ObjectMeta: Meta(ns, name, 0)}
	p.TypeMeta = metav1.TypeMeta{Kind: "Pod", APIVersion: "v1"}
	p.Labels = labels
	p.UID = types.UID("uid-" + ns + "-" + name)
	p.Status.PodIP = ip
	if terminating {
		t := TS(1000)
		p.DeletionTimestamp = &t
		p.Finalizers = []string{"verif/keep"}
	}
	return p
}

// SelfSigned creates a self-signed certificate (PEM crt, key). notAfterDays <= 0 means one year.
func SelfSigned(cn string, dns []string, notAfterDays int) (crt, key []byte) {
	return selfSigned(cn, dns, notAfterDays)
}
