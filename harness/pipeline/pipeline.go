// Package pipeline runs the real controller pipeline of haproxy-ingress offline:
// controller-runtime fake client -> real cache facade -> real watchers -> real converters
// -> real haproxy.Instance (templates, maps, dynamic updates, reload over the sockets of hasim).
package pipeline

import (
	"context"
	"fmt"
	"math/rand"
	"os"
	"path/filepath"
	"reflect"
	"sort"
	"time"

	"github.com/go-logr/logr"
	api "k8s.io/api/core/v1"
	discoveryv1 "k8s.io/api/discovery/v1"
	networking "k8s.io/api/networking/v1"
	"k8s.io/apimachinery/pkg/api/meta"
	"k8s.io/apimachinery/pkg/runtime"
	"k8s.io/client-go/rest"
	"sigs.k8s.io/controller-runtime/pkg/client"
	"sigs.k8s.io/controller-runtime/pkg/client/fake"
	gatewayv1 "sigs.k8s.io/gateway-api/apis/v1"
	gatewayv1alpha2 "sigs.k8s.io/gateway-api/apis/v1alpha2"
	gatewayv1beta1 "sigs.k8s.io/gateway-api/apis/v1beta1"

	"github.com/jcmoraisjr/haproxy-ingress/pkg/controller/config"
	"github.com/jcmoraisjr/haproxy-ingress/pkg/controller/reconciler"
	"github.com/jcmoraisjr/haproxy-ingress/pkg/controller/services"
	convtypes "github.com/jcmoraisjr/haproxy-ingress/pkg/converters/types"
)

const ControllerName = "haproxy-ingress.github.io/controller"

// Options of one controller instance.
type Options struct {
	Dir                 string // private directory (LocalFSPrefix)
	Shards              int
	ReloadInterval      time.Duration
	IngressClass        string
	WatchWithoutClass   bool
	ClassPrecedence     bool
	AllowCrossNamespace bool
	DisableKeywords     []string
	DefaultService      string
	DefaultCrtSecret    string
	ConfigMapName       string
	TCPConfigMapName    string
	Gateway             bool
	SortEndpointsBy     string
	PodNamespace        string
	AcmeServer          bool
	AcmeTrackTLSAnn     bool
	Logger              *logr.Logger
}

func Scheme() *runtime.Scheme {
	s := runtime.NewScheme()
	_ = api.AddToScheme(s)
	_ = networking.AddToScheme(s)
	_ = discoveryv1.AddToScheme(s)
	_ = gatewayv1.Install(s)
	_ = gatewayv1beta1.Install(s)
	_ = gatewayv1alpha2.Install(s)
	return s
}

// NewClient creates the fake API server.
func NewClient() client.WithWatch {
	return fake.NewClientBuilder().WithScheme(Scheme()).Build()
}

// Pipeline is one controller instance.
type Pipeline struct {
	Ctx     context.Context
	Cancel  context.CancelFunc
	Opt     Options
	Cfg     *config.Config
	Client  client.Client
	Svc     *services.Services
	W       *reconciler.VerifWatchers
	Pending map[bool]int // notifications per rparam{fullsync}
	Syncs   int
}

func (o *Options) CfgDir() string       { return filepath.Join(o.Dir, "etc/haproxy") }
func (o *Options) MapsDir() string      { return filepath.Join(o.Dir, "etc/haproxy/maps") }
func (o *Options) RunDir() string       { return filepath.Join(o.Dir, "var/run/haproxy") }
func (o *Options) AdminSocket() string  { return filepath.Join(o.RunDir(), "admin.sock") }
func (o *Options) MasterSocket() string { return filepath.Join(o.RunDir(), "master.sock") }

// Prepare creates the directory layout under Dir.
func (o *Options) Prepare() error {
	for _, d := range []string{"etc/haproxy/lua", "etc/haproxy/errorfiles", "etc/haproxy/maps", "var/run/haproxy",
		"var/lib/haproxy", "ssl/certs", "ssl/cacerts", "ssl/crl", "ssl/dhparam"} {
		if err := os.MkdirAll(filepath.Join(o.Dir, d), 0o755); err != nil {
			return err
		}
	}
	return nil
}

// New builds the services and watchers. The working directory of the process must be the repository root.
func New(cli client.Client, opt Options) (*Pipeline, error) {
	if opt.IngressClass == "" {
		opt.IngressClass = "haproxy"
	}
	if err := opt.Prepare(); err != nil {
		return nil, err
	}
	ctx, cancel := context.WithCancel(context.Background())
	if opt.Logger != nil {
		ctx = logr.NewContext(ctx, *opt.Logger)
	}
	cfg := &config.Config{
		AnnPrefix:                []string{"haproxy-ingress.github.io", "ingress.kubernetes.io"},
		BackendShards:            opt.Shards,
		BucketsResponseTime:      []float64{.001, .01, .1, 1},
		ConfigMapName:            opt.ConfigMapName,
		TCPConfigMapName:         opt.TCPConfigMapName,
		ControllerName:           ControllerName,
		DefaultDirCerts:          filepath.Join(opt.Dir, "ssl/certs"),
		DefaultDirCACerts:        filepath.Join(opt.Dir, "ssl/cacerts"),
		DefaultDirCrl:            filepath.Join(opt.Dir, "ssl/crl"),
		DefaultDirDHParam:        filepath.Join(opt.Dir, "ssl/dhparam"),
		DefaultDirMaps:           opt.MapsDir(),
		DefaultDirVarRun:         opt.RunDir(),
		DefaultService:           opt.DefaultService,
		DefaultSSLCertificate:    opt.DefaultCrtSecret,
		DisableExternalName:      true,
		DisableKeywords:          opt.DisableKeywords,
		AllowCrossNamespace:      opt.AllowCrossNamespace,
		Election:                 false,
		ElectionNamespace:        opt.PodNamespace,
		PodNamespace:             opt.PodNamespace,
		HasGatewayA2:             opt.Gateway,
		HasGatewayB1:             opt.Gateway,
		HasGatewayV1:             opt.Gateway,
		HasTCPRouteA2:            opt.Gateway,
		IngressClass:             opt.IngressClass,
		IngressClassPrecedence:   opt.ClassPrecedence,
		KubeConfig:               &rest.Config{Host: "http://127.0.0.1:1"},
		LocalFSPrefix:            opt.Dir,
		MasterSocket:             opt.MasterSocket(),
		MaxOldConfigFiles:        0,
		RateLimitUpdate:          100,
		ReloadInterval:           opt.ReloadInterval,
		ReloadRetry:              40 * time.Millisecond,
		ReloadStrategy:           "reusesocket",
		RootContext:              ctx,
		Scheme:                   Scheme(),
		SortEndpointsBy:          opt.SortEndpointsBy,
		WatchIngressWithoutClass: opt.WatchWithoutClass,
		AcmeServer:               opt.AcmeServer,
		AcmeTrackTLSAnn:          opt.AcmeTrackTLSAnn,
		AcmeFailInitialDuration:  time.Hour,
		AcmeFailMaxDuration:      time.Hour,
		AcmeCheckPeriod:          24 * time.Hour,
		AcmeSecretKeyName:        "ingress/acme-private-key",
		AcmeTokenConfigMapName:   "ingress/acme-validation-tokens",
	}
	svc, err := services.NewVerifServices(ctx, cli, cfg)
	if err != nil {
		cancel()
		return nil, err
	}
	p := &Pipeline{Ctx: ctx, Cancel: cancel, Opt: opt, Cfg: cfg, Client: cli, Svc: svc, Pending: map[bool]int{}}
	if q := svc.VerifReloadQueue(); q != nil {
		// the manager would start the reload queue
		go func() { _ = q.Start(ctx) }()
	}
	p.W = reconciler.NewVerifWatchers(ctx, cfg, svc.GetIsValidResource(), func(full bool) { p.Pending[full]++ })
	return p, nil
}

func (p *Pipeline) Close() { p.Cancel() }

// ---- playing the API server

func setTypeMeta(obj client.Object) {
	gvks, _, err := Scheme().ObjectKinds(obj)
	if err == nil && len(gvks) > 0 {
		obj.GetObjectKind().SetGroupVersionKind(gvks[0])
	}
}

func newOf(obj client.Object) client.Object {
	return obj.DeepCopyObject().(client.Object)
}

// Store writes obj to the API server (create or update) and returns op ("create"/"update"), the old object.
func Store(ctx context.Context, cli client.Client, obj client.Object) (string, client.Object, error) {
	return StoreTouch(ctx, cli, obj, false)
}

// StoreTouch is Store; touch forces a new metadata.generation although the spec is unchanged.
func StoreTouch(ctx context.Context, cli client.Client, obj client.Object, touch bool) (string, client.Object, error) {
	old := newOf(obj)
	err := cli.Get(ctx, client.ObjectKeyFromObject(obj), old)
	if err != nil {
		obj.SetResourceVersion("")
		if err := cli.Create(ctx, obj); err != nil {
			return "", nil, err
		}
		setTypeMeta(obj)
		return "create", nil, nil
	}
	obj.SetResourceVersion(old.GetResourceVersion())
	obj.SetUID(old.GetUID())
	BumpGeneration(old, obj, touch)
	if ts := obj.GetCreationTimestamp(); ts.IsZero() {
		obj.SetCreationTimestamp(old.GetCreationTimestamp())
	}
	if ts := obj.GetDeletionTimestamp(); ts != nil && old.GetDeletionTimestamp() == nil {
		// the API server sets metadata.deletionTimestamp on a delete request of an object that has finalizers
		obj.SetDeletionTimestamp(nil)
		if len(obj.GetFinalizers()) == 0 {
			obj.SetFinalizers([]string{"verif/keep"})
		}
		if err := cli.Update(ctx, obj); err != nil {
			return "", nil, err
		}
		if err := cli.Delete(ctx, obj); err != nil {
			return "", nil, err
		}
		if err := cli.Get(ctx, client.ObjectKeyFromObject(obj), obj); err != nil {
			return "", nil, err
		}
		setTypeMeta(obj)
		setTypeMeta(old)
		return "update", old, nil
	}
	if old.GetDeletionTimestamp() != nil {
		obj.SetDeletionTimestamp(old.GetDeletionTimestamp())
		obj.SetFinalizers(old.GetFinalizers())
	}
	if err := cli.Update(ctx, obj); err != nil {
		return "", nil, err
	}
	setTypeMeta(obj)
	setTypeMeta(old)
	return "update", old, nil
}

// Remove deletes obj from the API server and returns the last stored version.
func Remove(ctx context.Context, cli client.Client, obj client.Object) (client.Object, error) {
	old := newOf(obj)
	if err := cli.Get(ctx, client.ObjectKeyFromObject(obj), old); err != nil {
		return nil, err
	}
	if old.GetDeletionTimestamp() != nil && len(old.GetFinalizers()) > 0 {
		// already terminating: the last finalizer goes away and the API server drops the object
		upd := newOf(old)
		upd.SetFinalizers(nil)
		if err := cli.Update(ctx, upd); err != nil {
			return nil, err
		}
	} else if err := cli.Delete(ctx, old); err != nil {
		return nil, err
	}
	setTypeMeta(old)
	return old, nil
}

// ---- delivering events (after the API server was changed)

func (p *Pipeline) NotifyCreate(obj client.Object) bool {
	return p.W.Create(p.Ctx, newOf(obj))
}
func (p *Pipeline) NotifyUpdate(old, new client.Object) bool {
	return p.W.Update(p.Ctx, newOf(old), newOf(new))
}
func (p *Pipeline) NotifyDelete(old client.Object) bool {
	return p.W.Delete(p.Ctx, newOf(old))
}

// Apply stores obj and delivers the event to this pipeline's watchers.
func (p *Pipeline) Apply(obj client.Object) (string, bool, error) {
	return p.ApplyTouch(obj, false)
}

// ApplyTouch is Apply with a forced generation bump.
func (p *Pipeline) ApplyTouch(obj client.Object, touch bool) (string, bool, error) {
	op, old, err := StoreTouch(p.Ctx, p.Client, obj, touch)
	if err != nil {
		return "", false, err
	}
	if op == "create" {
		return op, p.NotifyCreate(obj), nil
	}
	return op, p.NotifyUpdate(old, obj), nil
}

// Delete removes obj and delivers the event.
func (p *Pipeline) Delete(obj client.Object) (bool, error) {
	old, err := Remove(p.Ctx, p.Client, obj)
	if err != nil {
		return false, err
	}
	return p.NotifyDelete(old), nil
}

// Reconcile does what IngressReconciler.Reconcile does for one queue item.
func (p *Pipeline) Reconcile(fullsync bool) (*convtypes.ChangedObjects, error) {
	changed := p.W.Swap()
	changed.NeedFullSync = fullsync
	delete(p.Pending, fullsync)
	p.Syncs++
	return changed, p.Svc.ReconcileIngress(p.Ctx, changed)
}

// ReconcilePending runs one reconciliation per pending queue item kind; fullFirst picks the order.
// With nothing pending it runs nothing. Returns the first error.
func (p *Pipeline) ReconcilePending(fullFirst bool) (n int, err error) {
	n, failed, err := p.ReconcilePendingKinds(fullFirst)
	_ = failed
	return n, err
}

// ReconcilePendingKinds is ReconcilePending and also returns the kinds (fullsync flag) whose reconciliation failed:
// those are the items the controller requeues after --reload-retry.
func (p *Pipeline) ReconcilePendingKinds(fullFirst bool) (n int, failed []bool, err error) {
	order := []bool{false, true}
	if fullFirst {
		order = []bool{true, false}
	}
	for _, k := range order {
		if p.Pending[k] > 0 {
			n++
			if _, e := p.Reconcile(k); e != nil {
				failed = append(failed, k)
				if err == nil {
					err = e
				}
			}
		}
	}
	return n, failed, err
}

var listKinds = []func() client.ObjectList{
	func() client.ObjectList { return &api.ConfigMapList{} },
	func() client.ObjectList { return &api.SecretList{} },
	func() client.ObjectList { return &api.ServiceList{} },
	func() client.ObjectList { return &api.EndpointsList{} },
	func() client.ObjectList { return &api.PodList{} },
	func() client.ObjectList { return &networking.IngressClassList{} },
	func() client.ObjectList { return &networking.IngressList{} },
	func() client.ObjectList { return &gatewayv1.GatewayClassList{} },
	func() client.ObjectList { return &gatewayv1.GatewayList{} },
	func() client.ObjectList { return &gatewayv1.HTTPRouteList{} },
	func() client.ObjectList { return &gatewayv1alpha2.TCPRouteList{} },
}

// AllObjects lists every object of the watched kinds.
func AllObjects(ctx context.Context, cli client.Client, gateway bool) ([]client.Object, error) {
	var res []client.Object
	for i, mk := range listKinds {
		if i >= 7 && !gateway {
			break
		}
		l := mk()
		if err := cli.List(ctx, l); err != nil {
			return nil, err
		}
		objs, err := meta.ExtractList(l)
		if err != nil {
			return nil, err
		}
		for _, o := range objs {
			co := o.(client.Object)
			setTypeMeta(co)
			res = append(res, co)
		}
	}
	return res, nil
}

// Start behaves like a freshly started controller: the informers deliver a create event for
// every existing object (in the order given by perm, nil = list order), then the queue is drained.
func (p *Pipeline) Start(rnd *rand.Rand) error {
	objs, err := AllObjects(p.Ctx, p.Client, p.Opt.Gateway)
	if err != nil {
		return err
	}
	if rnd != nil {
		rnd.Shuffle(len(objs), func(i, j int) { objs[i], objs[j] = objs[j], objs[i] })
	}
	for _, o := range objs {
		p.NotifyCreate(o)
	}
	if len(p.Pending) == 0 {
		p.Pending[false] = 1
	}
	_, err = p.ReconcilePending(rnd != nil && rnd.Intn(2) == 0)
	return err
}

// ---- a client whose List results come back in a seeded random order

type ShuffleClient struct {
	client.Client
	Rnd *rand.Rand
}

func (s *ShuffleClient) List(ctx context.Context, list client.ObjectList, opts ...client.ListOption) error {
	if err := s.Client.List(ctx, list, opts...); err != nil {
		return err
	}
	objs, err := meta.ExtractList(list)
	if err != nil {
		return err
	}
	s.Rnd.Shuffle(len(objs), func(i, j int) { objs[i], objs[j] = objs[j], objs[i] })
	return meta.SetList(list, objs)
}

// SortedNames is a helper for deterministic output.
func SortedNames(m map[string]bool) []string {
	r := make([]string, 0, len(m))
	for k := range m {
		r = append(r, k)
	}
	sort.Strings(r)
	return r
}

var _ = fmt.Sprintf

// BumpGeneration plays the API server: metadata.generation grows when the spec changes.
func BumpGeneration(old, obj client.Object, touch bool) {
	if old == nil {
		return
	}
	gen := old.GetGeneration()
	changed := touch
	switch n := obj.(type) {
	case *networking.Ingress:
		changed = changed || !reflect.DeepEqual(n.Spec, old.(*networking.Ingress).Spec)
	case *api.Service:
		changed = changed || !reflect.DeepEqual(n.Spec, old.(*api.Service).Spec)
	case *networking.IngressClass:
		changed = changed || !reflect.DeepEqual(n.Spec, old.(*networking.IngressClass).Spec)
	case *gatewayv1.GatewayClass:
		changed = changed || !reflect.DeepEqual(n.Spec, old.(*gatewayv1.GatewayClass).Spec)
	case *gatewayv1.Gateway:
		changed = changed || !reflect.DeepEqual(n.Spec, old.(*gatewayv1.Gateway).Spec)
	case *gatewayv1.HTTPRoute:
		changed = changed || !reflect.DeepEqual(n.Spec, old.(*gatewayv1.HTTPRoute).Spec)
	case *gatewayv1alpha2.TCPRoute:
		changed = changed || !reflect.DeepEqual(n.Spec, old.(*gatewayv1alpha2.TCPRoute).Spec)
	default:
		changed = false
	}
	if changed {
		gen++
	}
	obj.SetGeneration(gen)
}
