// Package world bundles a fake API server, a controller pipeline and a simulated HAProxy.
package world

import (
	"fmt"
	"os"

	"github.com/go-logr/logr/funcr"

	"sigs.k8s.io/controller-runtime/pkg/client"

	"verifharness/hasim"
	"verifharness/pipeline"
)

type World struct {
	Dir string
	Cli client.Client
	Sim *hasim.Sim
	P   *pipeline.Pipeline
	Opt pipeline.Options
}

// New creates a private directory under base, starts the simulated HAProxy and builds the pipeline.
// cli may be shared with another world (a second controller over the same cluster).
func New(base string, cli client.Client, opt pipeline.Options) (*World, error) {
	if err := os.MkdirAll(base, 0o755); err != nil {
		return nil, err
	}
	dir, err := os.MkdirTemp(base, "w")
	if err != nil {
		return nil, err
	}
	if cli == nil {
		cli = pipeline.NewClient()
	}
	opt.Dir = dir
	if os.Getenv("VERIF_LOG") != "" && opt.Logger == nil {
		l := funcr.New(func(prefix, args string) { fmt.Fprintln(os.Stderr, "LOG", dir[len(dir)-6:], prefix, args) }, funcr.Options{Verbosity: 3})
		opt.Logger = &l
	}
	if err := opt.Prepare(); err != nil {
		return nil, err
	}
	sim, err := hasim.Start(opt.CfgDir(), opt.AdminSocket(), opt.MasterSocket())
	if err != nil {
		os.RemoveAll(dir)
		return nil, err
	}
	p, err := pipeline.New(cli, opt)
	if err != nil {
		sim.Close()
		os.RemoveAll(dir)
		return nil, err
	}
	return &World{Dir: dir, Cli: cli, Sim: sim, P: p, Opt: opt}, nil
}

func (w *World) Close() {
	w.P.Close()
	w.Sim.Close()
	os.RemoveAll(w.Dir)
}

// Chdir moves to the repository root: the instance reads its templates from the relative path rootfs/.
func Chdir() {
	repo := os.Getenv("VERIF_REPO")
	if repo == "" {
		repo = "/repo"
	}
	if err := os.Chdir(repo); err != nil {
		panic(err)
	}
}
