-------------------------------- MODULE Acme --------------------------------
(***************************************************************************)
(* ACME (property C17).                                                    *)
(*                                                                         *)
(* Part A -- the decision of the signer (pkg/acme/signer.go verify): a     *)
(* certificate is requested iff the secret is missing or unreadable,       *)
(* expires within the window, or does not cover every declared domain; a   *)
(* secret is written only when both certificate and key were obtained.     *)
(* TLC enumerates the rows; the harness runs each through the real signer  *)
(* over the real cache facade with a stub acme client (hook H4).           *)
(*                                                                         *)
(* Part B -- the work queue follows the cluster: the ingress slots of a    *)
(* namespace declare tls blocks (secret, hosts) with or without            *)
(* cert-signer: acme; the controller keeps secret -> domain set and, on    *)
(* the leader, enqueues what appears or changes and removes what           *)
(* disappears.  TLC proposes histories of batched changes, sync kinds and  *)
(* leadership; the harness replays them on the real pipeline with a        *)
(* recording queue behind the real queue facade and a real leader elector  *)
(* over an in-memory lock.                                                 *)
(***************************************************************************)
EXTENDS Integers, Sequences, FiniteSets, TLC, Json

---------------------------------------------------------------------------
(* Part A *)

(* chain: tls.crt holds the certificate followed by its issuer, as an ACME server hands it out: the first block is the certificate *)
SecStates == {"absent", "nocrt", "garbage", "cert", "chain"}
(* notAfter relative to now + expiring window (30 days): expired long ago; well inside the window; 30 s inside; 30 s outside; far *)
ExpStates == {"expired", "inside", "edge-in", "edge-out", "far"}
SanSets == {"a", "ab", "abw", "wild", "wildw"}
DomSets == {"a", "b", "ab", "abw"}
SignOutcomes == {"ok", "okwarn", "fail", "crtonly", "keyonly"}

Names(d) == CASE d = "a" -> {"a.local"} [] d = "b" -> {"b.local"} [] d = "ab" -> {"a.local", "b.local"}
              [] d = "abw" -> {"a.local", "b.local", "w.sub.local"}
              [] d = "wild" -> {"*.local"} [] d = "wildw" -> {"*.local", "w.sub.local"}

(* X.509 name matching: exact, or a wildcard standing for exactly one left-most label *)
OneLabel == {"a.local", "b.local"}          \* the names *.local stands for, among the ones used here
CoveredBy(sans, name) == name \in Names(sans) \/ ("*.local" \in Names(sans) /\ name \in OneLabel)
Covers(sans, dom) == \A n \in Names(dom) : CoveredBy(sans, n)

Rows == [sec : SecStates, exp : ExpStates, sans : SanSets, dom : DomSets, sign : SignOutcomes]

Needed(r) == r.sec \notin {"cert", "chain"} \/ r.exp \in {"expired", "inside", "edge-in"} \/ ~Covers(r.sans, r.dom)
Obtained(r) == r.sign \in {"ok", "okwarn"}

(* observation o: o.signs (sequence of domain lists Sign was called with), o.written (the secret now holds the
   certificate the stub returned), o.changed (the secret differs from before the call) *)
RowBroken(r, o) ==
    IF ~Needed(r) /\ (Len(o.signs) # 0 \/ o.changed) THEN "NeverReissueValid"
    ELSE IF Needed(r) /\ (Len(o.signs) # 1) THEN "IssueWhenNeeded"
    ELSE IF Needed(r) /\ {o.signs[1][i] : i \in 1..Len(o.signs[1])} # Names(r.dom) THEN "IssueWhenNeeded"
    ELSE IF o.changed /\ ~(Needed(r) /\ Obtained(r) /\ o.written) THEN "WriteOnlyComplete"
    ELSE IF Needed(r) /\ Obtained(r) /\ ~o.written THEN "WriteOnlyComplete"
    ELSE "none"

---------------------------------------------------------------------------
(* Part B *)

CONSTANTS MaxSteps, MaxOps

Slots == {1, 2, 3}
SecretNames == {"s1", "s2"}
HostSets == {"a", "b", "ab"}
(* acme: how the ingress asks for a certificate -- "no", "signer" (cert-signer: acme) or "ann" (kubernetes.io/tls-acme: "true",
   which only counts with --acme-track-tls-annotation) *)
NoIng == [acme |-> "no", sec |-> "none", hosts |-> "none"]
IngVals == [acme : {"no", "signer", "ann"}, sec : SecretNames, hosts : HostSets]
Asks(v, trackann) == v.acme = "signer" \/ (v.acme = "ann" /\ trackann)

(* what the cluster wants: secret -> domains of every acme tls block that names it *)
Wanted(ing, trackann) ==
    LET users(s) == {i \in Slots : ing[i].sec = s /\ Asks(ing[i], trackann)} IN
    [s \in {x \in SecretNames : users(x) # {}} |-> UNION {Names(ing[i].hosts) : i \in users(s)}]

VARIABLES ing, leader, batch, hist, trackann
bvars == <<ing, leader, batch, hist, trackann>>

InitB == ing = [i \in Slots |-> NoIng] /\ leader = TRUE /\ batch = <<>> /\ hist = <<>> /\ trackann \in BOOLEAN

SetIng(i, v) == ing[i] # v /\ ing' = [ing EXCEPT ![i] = v] /\ batch' = Append(batch, [slot |-> i, v |-> v]) /\ UNCHANGED <<leader, hist, trackann>>

(* a reconciliation takes the batch; full: a full resync was asked for (ConfigMap / class change, leader acquired);
   lead: whether this controller leads during this step *)
Sync(full, lead, fail) ==
    /\ (batch # <<>> \/ full)
    /\ (lead /\ ~leader => full)        \* acquiring the lease enqueues a full resync
    \* fail: applying the configuration fails (a reload that does not come up); the controller retries by itself, which is a full resync
    /\ hist' = Append(hist, [ops |-> batch, full |-> full, leader |-> lead, ing |-> ing, ing0 |-> ing, trackann |-> trackann, fail |-> fail, late |-> <<>>])
    /\ batch' = <<>> /\ leader' = lead
    /\ UNCHANGED <<ing, trackann>>

(* a change that arrives after a failed update and before the controller's retry: the retry takes it in its batch
   (ing0 keeps the state the failed attempt saw; when the update does not fail after all, the change simply belongs to
   the next batch) *)
SetIngLate(i, v) ==
    /\ hist # <<>> /\ hist[Len(hist)].fail /\ hist[Len(hist)].late = <<>> /\ batch = <<>>
    /\ ing[i] # v
    /\ ing' = [ing EXCEPT ![i] = v]
    /\ hist' = [hist EXCEPT ![Len(hist)].late = <<[slot |-> i, v |-> v]>>, ![Len(hist)].ing = ing']
    /\ UNCHANGED <<leader, batch, trackann>>

NextB ==
    \/ \E i \in Slots, v \in IngVals \cup {NoIng} : SetIngLate(i, v)
    \/ /\ Len(hist) < MaxSteps
       /\ \/ Len(batch) < MaxOps /\ \E i \in Slots, v \in IngVals \cup {NoIng} : SetIng(i, v)
          \/ \E f \in BOOLEAN, ld \in BOOLEAN, fl \in BOOLEAN : Sync(f, ld, fl)

SpecB == InitB /\ [][NextB]_bvars
EmitB == (Len(hist) = MaxSteps) => PrintT(<<"BEHAVIOUR", ToJson(hist)>>)

EmitRows == (hist = <<>>) => PrintT(<<"BEHAVIOUR", ToJson(Rows)>>)   \* (refers to a variable, or TLC evaluates it when loading the module)

(* the item the queue carries for a secret: name, preferred chain, sorted domains -- compared as [sec, doms] *)
Items(wanted) == {[sec |-> s, doms |-> wanted[s]] : s \in DOMAIN wanted}

(* Judgement of one step.  known: what the previous sync left as the controller's view (Items); now: Items wanted
   after this step; adds / dels: items handed to the queue behind the facade. *)
StepBroken(known, now, st0, adds, dels) ==
    LET st == [st0 EXCEPT !.full = st0.full \/ st0.fail] IN
    IF ~st.leader THEN (IF adds # {} THEN "NonLeaderEnqueues" ELSE "none")
    ELSE IF ~st.full /\ ~((now \ known) \subseteq adds) THEN "EnqueueChanged"
    ELSE IF st.full /\ ~(now \subseteq adds) THEN "EnqueueChanged"
    ELSE IF ~(adds \subseteq now) THEN "EnqueueChanged"
    ELSE IF ~st.full /\ adds \cap known # {} THEN "NoReenqueue"
    ELSE IF ~((known \ now) \subseteq dels) THEN "RemoveGone"
    ELSE IF dels \cap now # {} THEN "RemoveGone"
    ELSE "none"

(* A failed update whose retry took late changes: the first attempt legitimately enqueued what the intermediate state (mid)
   wanted.  What the final state wants is enqueued by the retry (a full resync), and whatever was known or enqueued on the
   way and is not wanted any more is removed. *)
LateStepBroken(known, mid, now, st, adds, dels) ==
    IF ~st.leader THEN (IF adds # {} THEN "NonLeaderEnqueues" ELSE "none")
    ELSE IF ~(now \subseteq adds) THEN "EnqueueChanged"
    ELSE IF ~(adds \subseteq now \cup mid) THEN "EnqueueChanged"
    ELSE IF ~(((known \cup mid) \ now) \subseteq dels) THEN "RemoveGone"
    ELSE "none"
=============================================================================
