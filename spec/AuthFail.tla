------------------------------ MODULE AuthFail ------------------------------
(***************************************************************************)
(* External authentication fails closed (property C18).                    *)
(*                                                                         *)
(* A request that the documented routing gives to a path declared with     *)
(* auth-url (placement backend or frontend) or oauth must hit, before it   *)
(* is forwarded, either a `deny`, or an `auth-intercept` followed by a     *)
(* deny/redirect that fires unless the authentication succeeded, with      *)
(* conditions that cover the request.  ACL semantics (trusted, HAProxy     *)
(* manual): after `-m <method>` every further argument of the ACL is a     *)
(* pattern; `-m str` compares whole strings.                               *)
(***************************************************************************)
EXTENDS Integers, Sequences, FiniteSets, TLC, Json, MapLookup

URLs       == {"none", "svc_ok", "http_ok", "https_unresolvable", "malformed", "unknown_proto", "missing_port", "unknown_svc",
               "trailing_blank", "quoted"}
OAuths     == {"none", "valid_with_path", "valid_missing_path", "invalid_impl"}
Placements == {"backend", "frontend"}
PTypes     == {"exact", "prefix", "begin"}
Ranges     == {"default", "invalid", "exhausted"}

(* open: the unprotected path that shares the backend sorts after (/pub) or before (/aaa) the protected one *)
Opens      == {"after", "before"}

(* cors: the unprotected path enables CORS (its preflight handling must not open the protected one) *)
(* src: the annotations that declare the authentication sit on the Ingress or on the Service (both are documented places of
   path scoped keys; the host only reads Ingress annotations).  oprefix: oauth-uri-prefix left alone or set to the root path.
   elder: an older Ingress of the same host declares auth-external-placement itself (the host elects one placement). *)
Srcs     == {"ingress", "service"}
OPrefixs == {"default", "root"}
Elders   == {"none", "backend", "frontend"}
BaseCases == [url : URLs, oauth : OAuths, placement : Placements, ptype : PTypes, lua : BOOLEAN, range : Ranges, open : Opens, cors : BOOLEAN,
              pubauth : BOOLEAN,     \* the other path of the backend declares an auth-url of its own
              src : {"ingress"}, oprefix : {"default"}, elder : {"none"}, twin : {FALSE}]
ExtraCases == [url : {"none", "svc_ok", "http_ok", "malformed"}, oauth : {"none", "valid_with_path"}, placement : Placements, ptype : {"prefix"},
               lua : {TRUE}, range : {"default"}, open : {"after"}, cors : {FALSE}, pubauth : {FALSE},
               src : Srcs, oprefix : OPrefixs, elder : Elders,
               twin : BOOLEAN]   \* another namespace runs an auth Service of the same name and port, used by an older Ingress
Cases == BaseCases \cup ExtraCases

SeqT(t) == [i \in 1..Len(t) |-> t[i]]

(* does auth rule a cover a request with path id pid, req.base b and path p *)
Applies(a, pid, b, p) ==
    /\ a.other = ""
    /\ (Len(a.ids) = 0 \/ \E i \in 1..Len(a.ids) : a.ids[i] = pid)
    /\ (Len(a.base) = 0 \/ \E i \in 1..Len(a.base) : SeqT(a.base[i]) = b)
    /\ (Len(a.allow) = 0 \/ ~IsPrefixSeq(SeqT(a.allow), p))

(* rules: sequence of auth steps of one section, in order *)
Guarded(rules, pid, b, p) ==
    \E i \in 1..Len(rules) :
        /\ Applies(rules[i], pid, b, p)
        /\ \/ rules[i].kind = "deny" /\ ~rules[i].unless
           \/ /\ rules[i].kind = "intercept"
              /\ \E j \in (i+1)..Len(rules) : rules[j].unless /\ rules[j].kind \in {"deny", "redirect"} /\ Applies(rules[j], pid, b, p)

(* "intercepted by the authentication service call configured for exactly that path": the service a declaration names.
   what: "svc" (the Service auth of the namespace of the Ingress: backend d_auth_8080), "addr" (the address 10.0.0.9:8000),
   "any" (the declaration is not one of the plainly valid ones: whatever intercepts, or a deny) *)
DeclaredService(c, own) ==
    IF own = "pub" THEN "addr"                       \* the other path declares auth-url http://10.0.0.9:8000 when it declares one
    ELSE IF c.url = "svc_ok" THEN "svc"
    ELSE IF c.url = "http_ok" THEN "addr"
    ELSE IF c.url = "none" /\ c.oauth = "valid_with_path" /\ c.oprefix = "default" THEN "svc"
    ELSE "any"
RightService(a, what) ==
    CASE what = "svc"  -> a.target = "d_auth_8080"
      [] what = "addr" -> SeqT(a.servers) = <<"10.0.0.9:8000">>
      [] OTHER -> TRUE

(* Guarded, by a deny or by a call to the declared service (a call to a further service on top of it takes nothing away) *)
GuardedRight(rules, pid, b, p, what) ==
    \E i \in 1..Len(rules) :
        /\ Applies(rules[i], pid, b, p)
        /\ \/ rules[i].kind = "deny" /\ ~rules[i].unless
           \/ /\ rules[i].kind = "intercept" /\ RightService(rules[i], what)
              /\ \E j \in (i+1)..Len(rules) : rules[j].unless /\ rules[j].kind \in {"deny", "redirect"} /\ Applies(rules[j], pid, b, p)

VARIABLE cs
Init == cs \in Cases
Next == UNCHANGED cs
Spec == Init /\ [][Next]_cs
Emit == PrintT(<<"BEHAVIOUR", ToJson(cs)>>)
=============================================================================
