----------------------------- MODULE BackendSet -----------------------------
(***************************************************************************)
(* The container of backends (pkg/haproxy/types/backends.go) and the       *)
(* bookkeeping that decides which shard files are rewritten (C05 rests on  *)
(* it; F2 and two seeded changes lived here).                              *)
(*                                                                         *)
(* A sync removes the dirty backends, acquires (re-creates) the ones the   *)
(* new state declares, then Shrink cancels the pairs that turned out       *)
(* identical; the changed shards are written; Commit forgets the deltas.   *)
(* A full sync starts with Clear: everything becomes "deleted".            *)
(*                                                                         *)
(* ShardsCover: after Shrink, every shard holding a backend that was       *)
(* added, removed or changed since the last Commit is flagged -- otherwise *)
(* its file keeps content that no longer is the model.                     *)
(* TLC checks it on the model and proposes call sequences; harness/cmd/    *)
(* chgx replays them on the real container; TraceBackendSet.tla compares   *)
(* the whole observable state after every call.                            *)
(***************************************************************************)
EXTENDS Integers, Sequences, FiniteSets, TLC, Json

CONSTANTS MaxCalls,
          ShardOf      \* id -> shard, as the implementation hashes it (read from the trace header; a guess for model checking)

Ids == {"b1", "b2", "b3", "b4"}
Vers == {1, 2}
Absent == 0

VARIABLES items,      \* id -> version | Absent : current objects
          add,        \* ids created since the last commit
          del,        \* id -> version | Absent : objects removed since the last commit
          changed,    \* shards to rewrite
          committed,  \* ghost: id -> version | Absent at the last commit
          hist,
          shrunk,     \* ghost: a Shrink was the last call
          phase       \* where the controller is in its protocol: "idle" | "removing" | "acquiring" | "shrunk" | "failed"

vars == <<items, add, del, changed, committed, hist, shrunk, phase>>

Shards(S) == {ShardOf[i] : i \in S}
Dom(f) == {i \in Ids : f[i] # Absent}

Acquire(i, v) ==
    /\ IF items[i] # Absent THEN UNCHANGED <<items, add, changed>>
       ELSE /\ items' = [items EXCEPT ![i] = v]
            /\ add' = add \cup {i}
            /\ changed' = changed \cup {ShardOf[i]}
    /\ hist' = Append(hist, [op |-> "acquire", id |-> i, v |-> v])
    /\ shrunk' = FALSE
    /\ UNCHANGED <<del, committed>>

Remove(i) ==
    /\ IF items[i] = Absent THEN UNCHANGED <<items, del, changed>>
       ELSE /\ del' = [del EXCEPT ![i] = items[i]]
            /\ items' = [items EXCEPT ![i] = Absent]
            /\ changed' = changed \cup {ShardOf[i]}
    /\ hist' = Append(hist, [op |-> "remove", id |-> i])
    /\ shrunk' = FALSE
    /\ UNCHANGED <<add, committed>>

(* pairs removed and created again with the same content are not a change; when any pair is cancelled the flags are
   recomputed from what is still pending *)
Shrink ==
    LET same == {i \in add : del[i] # Absent /\ del[i] = items[i]} IN
    /\ add' = add \ same
    /\ del' = [i \in Ids |-> IF i \in same THEN Absent ELSE del[i]]
    /\ changed' = IF same = {} THEN changed ELSE Shards((add \ same) \cup {i \in Ids : del[i] # Absent /\ i \notin same})
    /\ hist' = Append(hist, [op |-> "shrink"])
    /\ shrunk' = TRUE
    /\ UNCHANGED <<items, committed>>

Commit ==
    /\ add' = {} /\ del' = [i \in Ids |-> Absent] /\ changed' = {}
    /\ committed' = items
    /\ hist' = Append(hist, [op |-> "commit"])
    /\ shrunk' = FALSE
    /\ UNCHANGED items

(* full sync: every shard that holds something, or is still to be written, is flagged; everything is "deleted" *)
Clear ==
    /\ changed' = Shards(Dom(items)) \cup changed
    /\ del' = items
    /\ items' = [i \in Ids |-> Absent]
    /\ add' = {}
    /\ hist' = Append(hist, [op |-> "clear"])
    /\ shrunk' = FALSE
    /\ UNCHANGED committed

Init ==
    /\ items = [i \in Ids |-> Absent] /\ add = {} /\ del = [i \in Ids |-> Absent] /\ changed = {}
    /\ committed = [i \in Ids |-> Absent] /\ hist = <<>> /\ shrunk = FALSE /\ phase = "idle"

(* The calls come in the order the controller makes them: a partial sync removes the dirty backends and acquires what the
   new state declares; a full sync clears first; Shrink, then the files are written and Commit follows -- or the update
   fails, the state is cleared (F3) and the retry is a full sync, which clears again. *)
Next ==
    /\ Len(hist) < MaxCalls
    /\ \/ phase = "idle" /\ phase' = "removing" /\ UNCHANGED <<items, add, del, changed, committed, hist, shrunk>>
       \/ phase \in {"idle", "failed"} /\ Clear /\ phase' = "acquiring"
       \/ phase = "removing" /\ (\E i \in Dom(items) : Remove(i)) /\ phase' = "removing"
       \/ phase \in {"removing", "acquiring"} /\ (\E i \in Ids, v \in Vers : Acquire(i, v)) /\ phase' = "acquiring"
       \/ phase \in {"removing", "acquiring"} /\ Shrink /\ phase' = "shrunk"
       \/ phase = "shrunk" /\ Commit /\ phase' = "idle"
       \/ phase = "shrunk" /\ Clear /\ phase' = "failed"

Spec == Init /\ [][Next]_vars

(* what differs from the committed state *)
Differs == {i \in Ids : items[i] # committed[i]}
ShardsCover == shrunk => Shards(Differs) \subseteq changed
(* the deltas describe the difference: a changed object is both removed and created *)
DeltasCover == \A i \in Differs : (items[i] # Absent => i \in add) /\ (committed[i] # Absent => del[i] # Absent)

Emit == (Len(hist) = MaxCalls) => PrintT(<<"BEHAVIOUR", ToJson(hist)>>)
=============================================================================
