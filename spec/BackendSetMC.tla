---------------------------- MODULE BackendSetMC ----------------------------
(* Model-checking instance of BackendSet: two backends share a shard, the others are alone. *)
EXTENDS BackendSet
GuessShard == [i \in Ids |-> IF i \in {"b1", "b2"} THEN 0 ELSE IF i = "b3" THEN 1 ELSE 2]
=============================================================================
