---------------------------- MODULE ClassSelect ----------------------------
(***************************************************************************)
(* Which Ingresses belong to this controller (property C08), from          *)
(* docs/content/en/docs/configuration/keys.md "Class matter" and the       *)
(* Ingress Class section of command-line.md.                               *)
(*   ann : "absent" | "ours" | "foreign" | "empty"  kubernetes.io/ingress.class *)
(*         (empty: the annotation is there with the empty string as value:   *)
(*          a class was declared, and it is not the one of this controller)  *)
(*   cls : "absent" | "ours" | "foreign" | "dangling"   ingressClassName    *)
(*         (ours: an IngressClass whose controller is this controller;      *)
(*          dangling: no such IngressClass)                                 *)
(*   ww  : --watch-ingress-without-class     prec : --ingress-class-precedence *)
(***************************************************************************)
EXTENDS Integers, Sequences, FiniteSets, TLC, Json

Anns == {"absent", "ours", "foreign", "empty"}
Clss == {"absent", "ours", "foreign", "dangling"}

DocSelected(ann, cls, ww, prec) ==
    LET annSays == ann = "ours"
        clsSays == cls = "ours"
    IN CASE ann # "absent" /\ cls # "absent" -> IF annSays = clsSays THEN annSays ELSE IF prec THEN clsSays ELSE annSays
         [] ann # "absent" /\ cls = "absent" -> annSays
         [] ann = "absent" /\ cls # "absent" -> clsSays
         [] OTHER -> ww

(* how the watchers must hand a change of an Ingress to the reconciliation *)
Delivery(selBefore, selAfter) ==
    CASE selBefore /\ selAfter -> "upd"
      [] ~selBefore /\ selAfter -> "add"
      [] selBefore /\ ~selAfter -> "del"
      [] OTHER -> "ignored"

Rows == [ann : Anns, cls : Clss, ww : BOOLEAN, prec : BOOLEAN]

(* enumeration: single rows (from = to) and every transition under fixed flags *)
VARIABLE tr
Init == tr \in {[from |-> a, to |-> b] : a \in Rows, b \in Rows} /\ tr.from.ww = tr.to.ww /\ tr.from.prec = tr.to.prec
Next == UNCHANGED tr
Spec == Init /\ [][Next]_tr
Emit == PrintT(<<"BEHAVIOUR", ToJson(tr)>>)
=============================================================================
