------------------------------ MODULE Controller ------------------------------
(***************************************************************************)
(* The controller as a function from histories of batched Kubernetes       *)
(* changes to the configuration HAProxy loads (properties C01, C05, C06,   *)
(* C12, C15 and the history part of C07/C08).                              *)
(*                                                                         *)
(* This module carries                                                     *)
(*  - the cluster state over the core vocabulary (ingress slots holding    *)
(*    templates, endpoint sets, TLS secrets) and the actions that change   *)
(*    it in batches: TLC enumerates / simulates the histories that the     *)
(*    harness replays on the real pipeline (harness/cmd/ctl);              *)
(*  - FullModel: what the documentation promises for a cluster state       *)
(*    (first-created Ingress wins a duplicated host/path/type and the TLS  *)
(*    declaration of a host; missing or malformed secret -> default        *)
(*    certificate; ready endpoints of the Service named by the rule) --    *)
(*    the oracle the recorded routing tables are compared with;            *)
(*  - layer A predicates over recorded observations (Converged,            *)
(*    Deterministic, DiskExact, RetryConverges), used by                   *)
(*    TraceController.tla.                                                 *)
(* The templates come from ControllerUniverse.tla, generated from          *)
(* vlib/universe.py (one source of truth for spec and harness).            *)
(***************************************************************************)
EXTENDS Integers, Sequences, FiniteSets, TLC, Json, ControllerUniverse

CONSTANTS Slots,        \* ingress slots; creation order is the slot number
          TmplIds,      \* templates an ingress slot can hold
          Svcs, EpsIds, \* services and the endpoint sets they can have
          Secrets, SecVals,
          MaxOps,       \* events per batch
          MaxBatches,
          FaultPoints   \* failure points a reconciliation can be hit by (C12); {} = fault-free histories

VARIABLES ing,    \* slot -> template id | "none"
          eps,    \* service -> endpoint set id
          sec,    \* secret -> "absent" | "bad" | "v1" | "v2" | "w1" | "w2"
          batch,  \* events of the batch being collected
          hist    \* closed batches

vars == <<ing, eps, sec, batch, hist>>

None == "none"

(* secret values that hold a usable certificate: v1/v2 are private to the secret, w1/w2 have the same content in every secret *)
ValidSec == {"v1", "v2", "w1", "w2"}

---------------------------------------------------------------------------
(* FullModel: the documented meaning of a cluster state *)

Live(i, g) == g[i] # None

(* the ingress that owns a declaration: the first created one *)
RouteOwner(g, h, p, ty) ==
    LET cand == {i \in Slots : Live(i, g) /\ \E r \in TmplRules(g[i]) : r.h = h /\ r.p = p /\ r.ty = ty} IN
    IF cand = {} THEN 0 ELSE CHOOSE i \in cand : \A j \in cand : i <= j

AllRuleKeys(g) == {[h |-> r.h, p |-> r.p, ty |-> r.ty] : r \in UNION {TmplRules(g[i]) : i \in {j \in Slots : Live(j, g)}}}

(* a template may declare the same host/path/type twice: the first rule of the ingress wins *)
Routes(g) ==
    {[h |-> k.h, p |-> k.p, ty |-> k.ty, s |-> TmplBackend(g[RouteOwner(g, k.h, k.p, k.ty)], k.h, k.p, k.ty)] : k \in AllRuleKeys(g)}

TLSOwner(g, h) ==
    LET cand == {i \in Slots : Live(i, g) /\ \E t \in TmplTLS(g[i]) : t.h = h} IN
    IF cand = {} THEN 0 ELSE CHOOSE i \in cand : \A j \in cand : i <= j

TLSHosts(g) == {t.h : t \in UNION {TmplTLS(g[i]) : i \in {j \in Slots : Live(j, g)}}}

(* hosts served with a certificate of their own (the others get the default one) *)
Certs(g, sc) ==
    {[h |-> h, c |-> TmplSecret(g[TLSOwner(g, h)], h)] :
        h \in {x \in TLSHosts(g) : sc[TmplSecret(g[TLSOwner(g, x)], x)] \in ValidSec}}

Backends(g, e) ==
    {[s |-> s, eps |-> EpsReady(e[s])] : s \in {r.s : r \in Routes(g)}}

FullModel(g, e, sc) == [routes |-> Routes(g), crts |-> Certs(g, sc), backs |-> Backends(g, e)]

---------------------------------------------------------------------------
(* histories *)

Ev(k, n, v) == [k |-> k, n |-> n, v |-> v]

SetIng(i, t) ==
    /\ ing' = [ing EXCEPT ![i] = t]
    /\ batch' = Append(batch, Ev("ing", i, t))
    /\ UNCHANGED <<eps, sec, hist>>

DelIng(i) ==
    /\ ing[i] # None
    /\ ing' = [ing EXCEPT ![i] = None]
    /\ batch' = Append(batch, Ev("ing", i, None))
    /\ UNCHANGED <<eps, sec, hist>>

SetEps(s, e) ==
    /\ eps[s] # e
    /\ eps' = [eps EXCEPT ![s] = e]
    /\ batch' = Append(batch, Ev("eps", s, e))
    /\ UNCHANGED <<ing, sec, hist>>

SetSec(c, v) ==
    /\ sec[c] # v
    /\ sec' = [sec EXCEPT ![c] = v]
    /\ batch' = Append(batch, Ev("sec", c, v))
    /\ UNCHANGED <<ing, eps, hist>>

(* the queue hands the batch to a reconciliation; f names the failure point hit by it ("none": fault free).
   After a failure the controller retries by itself; the retry is fault free. *)
Reconcile(f) ==
    /\ batch # <<>>
    /\ hist' = Append(hist, [ops |-> batch, fault |-> f])
    /\ batch' = <<>>
    /\ UNCHANGED <<ing, eps, sec>>

Init ==
    /\ ing = [i \in Slots |-> None]
    /\ eps = [s \in Svcs |-> InitEps(s)]
    /\ sec = [c \in Secrets |-> "absent"]
    /\ batch = <<>> /\ hist = <<>>

Next ==
    \/ /\ Len(hist) < MaxBatches /\ Len(batch) < MaxOps
       /\ \/ \E i \in Slots, t \in TmplIds : SetIng(i, t)
          \/ \E i \in Slots : DelIng(i)
          \/ \E s \in Svcs, e \in EpsIds : SetEps(s, e)
          \/ \E c \in Secrets, v \in SecVals : SetSec(c, v)
    \/ /\ Len(hist) < MaxBatches /\ \E f \in FaultPoints \cup {"none"} : Reconcile(f)

Spec == Init /\ [][Next]_vars

(* design-level sanity of the oracle: a declared route always has an owner, owners are live,
   every certificate belongs to a live declaration *)
OracleOK ==
    LET m == FullModel(ing, eps, sec) IN
    /\ \A r \in m.routes : RouteOwner(ing, r.h, r.p, r.ty) \in Slots /\ r.s \in Svcs
    /\ \A c \in m.crts : TLSOwner(ing, c.h) \in Slots /\ sec[c.c] \in ValidSec
    /\ \A b \in m.backs : \E r \in m.routes : r.s = b.s
    /\ \A r1, r2 \in m.routes : (r1.h = r2.h /\ r1.p = r2.p /\ r1.ty = r2.ty) => r1 = r2

EmitBehaviour ==
    (Len(hist) = MaxBatches /\ batch = <<>>) => PrintT(<<"BEHAVIOUR", ToJson(hist)>>)

=============================================================================
