------------------------- MODULE ControllerUniverse -------------------------
(* GENERATED from vlib/universe.py by `python3 -m vlib.universe`; do not edit. *)
EXTENDS Integers, Sequences, FiniteSets

TmplRules(t) ==
    CASE t = "t1" -> {[h |-> "h1.local", p |-> "/", ty |-> "begin", s |-> "s1"]}
      [] t = "t2" -> {[h |-> "h1.local", p |-> "/a", ty |-> "begin", s |-> "s2"]}
      [] t = "t3" -> {[h |-> "h1.local", p |-> "/", ty |-> "begin", s |-> "s2"]}
      [] t = "t4" -> {[h |-> "h2.local", p |-> "/", ty |-> "begin", s |-> "s1"]}
      [] t = "t5" -> {[h |-> "h1.local", p |-> "/a", ty |-> "exact", s |-> "s1"]}
      [] t = "t6" -> {[h |-> "h1.local", p |-> "/a/b", ty |-> "prefix", s |-> "s1"], [h |-> "h2.local", p |-> "/a", ty |-> "prefix", s |-> "s2"]}
      [] t = "t7" -> {[h |-> "h1.local", p |-> "/", ty |-> "begin", s |-> "s1"]}
      [] t = "t8" -> {[h |-> "<default>", p |-> "/", ty |-> "begin", s |-> "s2"]}
      [] t = "t9" -> {[h |-> "h2.local", p |-> "/", ty |-> "begin", s |-> "s2"]}
      [] t = "t10" -> {}
      [] t = "t11" -> {[h |-> "h1.local", p |-> "/a", ty |-> "prefix", s |-> "s1"], [h |-> "h1.local", p |-> "/a", ty |-> "exact", s |-> "s2"]}
      [] t = "t12" -> {[h |-> "h2.local", p |-> "/", ty |-> "begin", s |-> "s1"]}
      [] t = "t13" -> {[h |-> "*.h1.local", p |-> "/", ty |-> "begin", s |-> "s2"]}
      [] t = "t14" -> {[h |-> "h2.local", p |-> "/Up", ty |-> "exact", s |-> "s2"], [h |-> "h2.local", p |-> "/Pre", ty |-> "prefix", s |-> "s1"]}
      [] t = "t15" -> {[h |-> "<default>", p |-> "/", ty |-> "exact", s |-> "s1"]}
      [] t = "t16" -> {[h |-> "<default>", p |-> "/", ty |-> "begin", s |-> "s2"]}
      [] t = "t17" -> {[h |-> "*.h1.local", p |-> "/a", ty |-> "prefix", s |-> "s1"], [h |-> "*.h1.local", p |-> "/x", ty |-> "exact", s |-> "s2"]}
      [] t = "t18" -> {[h |-> "a.h1.local", p |-> "/a/b", ty |-> "prefix", s |-> "s2"]}
      [] OTHER -> {}

TmplBackend(t, h, p, ty) ==
    CASE t = "t1" -> (CASE h = "h1.local" /\ p = "/" /\ ty = "begin" -> "s1" [] OTHER -> "none")
      [] t = "t2" -> (CASE h = "h1.local" /\ p = "/a" /\ ty = "begin" -> "s2" [] OTHER -> "none")
      [] t = "t3" -> (CASE h = "h1.local" /\ p = "/" /\ ty = "begin" -> "s2" [] OTHER -> "none")
      [] t = "t4" -> (CASE h = "h2.local" /\ p = "/" /\ ty = "begin" -> "s1" [] OTHER -> "none")
      [] t = "t5" -> (CASE h = "h1.local" /\ p = "/a" /\ ty = "exact" -> "s1" [] OTHER -> "none")
      [] t = "t6" -> (CASE h = "h1.local" /\ p = "/a/b" /\ ty = "prefix" -> "s1" [] h = "h2.local" /\ p = "/a" /\ ty = "prefix" -> "s2" [] OTHER -> "none")
      [] t = "t7" -> (CASE h = "h1.local" /\ p = "/" /\ ty = "begin" -> "s1" [] OTHER -> "none")
      [] t = "t8" -> (CASE h = "<default>" /\ p = "/" /\ ty = "begin" -> "s2" [] OTHER -> "none")
      [] t = "t9" -> (CASE h = "h2.local" /\ p = "/" /\ ty = "begin" -> "s2" [] OTHER -> "none")
      [] t = "t10" -> "none"
      [] t = "t11" -> (CASE h = "h1.local" /\ p = "/a" /\ ty = "prefix" -> "s1" [] h = "h1.local" /\ p = "/a" /\ ty = "exact" -> "s2" [] OTHER -> "none")
      [] t = "t12" -> (CASE h = "h2.local" /\ p = "/" /\ ty = "begin" -> "s1" [] OTHER -> "none")
      [] t = "t13" -> (CASE h = "*.h1.local" /\ p = "/" /\ ty = "begin" -> "s2" [] OTHER -> "none")
      [] t = "t14" -> (CASE h = "h2.local" /\ p = "/Up" /\ ty = "exact" -> "s2" [] h = "h2.local" /\ p = "/Pre" /\ ty = "prefix" -> "s1" [] OTHER -> "none")
      [] t = "t15" -> (CASE h = "<default>" /\ p = "/" /\ ty = "exact" -> "s1" [] OTHER -> "none")
      [] t = "t16" -> (CASE h = "<default>" /\ p = "/" /\ ty = "begin" -> "s2" [] OTHER -> "none")
      [] t = "t17" -> (CASE h = "*.h1.local" /\ p = "/a" /\ ty = "prefix" -> "s1" [] h = "*.h1.local" /\ p = "/x" /\ ty = "exact" -> "s2" [] OTHER -> "none")
      [] t = "t18" -> (CASE h = "a.h1.local" /\ p = "/a/b" /\ ty = "prefix" -> "s2" [] OTHER -> "none")
      [] OTHER -> "none"

TmplTLS(t) ==
    CASE t = "t1" -> {}
      [] t = "t2" -> {}
      [] t = "t3" -> {}
      [] t = "t4" -> {[h |-> "h2.local", c |-> "c1"]}
      [] t = "t5" -> {[h |-> "h1.local", c |-> "c2"]}
      [] t = "t6" -> {}
      [] t = "t7" -> {[h |-> "h1.local", c |-> "c1"]}
      [] t = "t8" -> {}
      [] t = "t9" -> {[h |-> "h2.local", c |-> "c2"]}
      [] t = "t10" -> {[h |-> "h1.local", c |-> "c1"]}
      [] t = "t11" -> {}
      [] t = "t12" -> {}
      [] t = "t13" -> {[h |-> "*.h1.local", c |-> "c1"]}
      [] t = "t14" -> {}
      [] t = "t15" -> {}
      [] t = "t16" -> {}
      [] t = "t17" -> {}
      [] t = "t18" -> {}
      [] OTHER -> {}

TmplSecret(t, h) ==
    CASE t = "t1" -> "none"
      [] t = "t2" -> "none"
      [] t = "t3" -> "none"
      [] t = "t4" -> (CASE h = "h2.local" -> "c1" [] OTHER -> "none")
      [] t = "t5" -> (CASE h = "h1.local" -> "c2" [] OTHER -> "none")
      [] t = "t6" -> "none"
      [] t = "t7" -> (CASE h = "h1.local" -> "c1" [] OTHER -> "none")
      [] t = "t8" -> "none"
      [] t = "t9" -> (CASE h = "h2.local" -> "c2" [] OTHER -> "none")
      [] t = "t10" -> (CASE h = "h1.local" -> "c1" [] OTHER -> "none")
      [] t = "t11" -> "none"
      [] t = "t12" -> "none"
      [] t = "t13" -> (CASE h = "*.h1.local" -> "c1" [] OTHER -> "none")
      [] t = "t14" -> "none"
      [] t = "t15" -> "none"
      [] t = "t16" -> "none"
      [] t = "t17" -> "none"
      [] t = "t18" -> "none"
      [] OTHER -> "none"

EpsReady(e) ==
    CASE e = "e0" -> {}
      [] e = "e1" -> {"1"}
      [] e = "e2" -> {"1", "2"}
      [] e = "e3" -> {"2"}
      [] e = "e4" -> {"1", "2", "3"}
      [] e = "e5" -> {"1", "4"}
      [] e = "e6" -> {"1"}
      [] OTHER -> {}

InitEps(s) == IF s = "s1" THEN "e1" ELSE "e2"

EpsNotReady(e) ==
    CASE e = "e0" -> {}
      [] e = "e1" -> {}
      [] e = "e2" -> {}
      [] e = "e3" -> {"3"}
      [] e = "e4" -> {}
      [] e = "e5" -> {}
      [] e = "e6" -> {"2"}
      [] OTHER -> {}

PathChars(p) ==
    CASE p = "/" -> <<"/">>
      [] p = "/Pre" -> <<"/", "P", "r", "e">>
      [] p = "/Up" -> <<"/", "U", "p">>
      [] p = "/a" -> <<"/", "a">>
      [] p = "/a/b" -> <<"/", "a", "/", "b">>
      [] p = "/x" -> <<"/", "x">>
      [] OTHER -> <<>>

ReqPaths == <<<<"/">>, <<"/", "a">>, <<"/", "a", "/">>, <<"/", "a", "/", "b">>, <<"/", "a", "/", "b", "/", "c">>, <<"/", "a", "b">>, <<"/", "A">>, <<"/", "x">>, <<"/", "U", "p">>, <<"/", "u", "p">>, <<"/", "P", "r", "e", "/", "x">>, <<"/", "p", "r", "e", "/", "x">>>>

ReqHosts == <<[name |-> "h1.local", chars |-> <<"h", "1", ".", "l", "o", "c", "a", "l">>, wild |-> ""], [name |-> "h2.local", chars |-> <<"h", "2", ".", "l", "o", "c", "a", "l">>, wild |-> ""], [name |-> "h1.local", chars |-> <<"H", "1", ".", "L", "O", "C", "A", "L">>, wild |-> ""], [name |-> "x.local", chars |-> <<"x", ".", "l", "o", "c", "a", "l">>, wild |-> ""], [name |-> "a.h1.local", chars |-> <<"a", ".", "h", "1", ".", "l", "o", "c", "a", "l">>, wild |-> "*.h1.local"], [name |-> "b.a.h1.local", chars |-> <<"b", ".", "a", ".", "h", "1", ".", "l", "o", "c", "a", "l">>, wild |-> ""]>>

ReqSNI == <<[name |-> "h1.local", chars |-> <<"h", "1", ".", "l", "o", "c", "a", "l">>, wild |-> ""], [name |-> "h2.local", chars |-> <<"h", "2", ".", "l", "o", "c", "a", "l">>, wild |-> ""], [name |-> "a.h1.local", chars |-> <<"a", ".", "h", "1", ".", "l", "o", "c", "a", "l">>, wild |-> "*.h1.local"], [name |-> "b.a.h1.local", chars |-> <<"b", ".", "a", ".", "h", "1", ".", "l", "o", "c", "a", "l">>, wild |-> ""], [name |-> "x.local", chars |-> <<"x", ".", "l", "o", "c", "a", "l">>, wild |-> ""], [name |-> "h1.local.x", chars |-> <<"h", "1", ".", "l", "o", "c", "a", "l", ".", "x">>, wild |-> ""]>>

AllTmplIds == {"t1", "t2", "t3", "t4", "t5", "t6", "t7", "t8", "t9", "t10", "t11", "t12", "t13", "t14", "t15", "t16", "t17", "t18"}

=============================================================================
