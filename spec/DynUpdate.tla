------------------------------ MODULE DynUpdate ------------------------------
(***************************************************************************)
(* Dynamic (runtime) update of one backend's server slots over the admin   *)
(* socket, versus the configuration written to disk (properties C02, C11). *)
(*                                                                         *)
(* Layer B: transcription of pkg/haproxy/dynupdate.go (checkBackendPair,   *)
(* checkEndpointPair, alignSlots), types.Backends.Shrink/backendsMatch and *)
(* of the part of HAProxyUpdate that decides between "dynamic", "noop" and *)
(* "reload", for sequence server naming (srvNNN).  One Update step is one  *)
(* HAProxyUpdate of a partial sync that re-created the backend from the    *)
(* Endpoints object (`eps`, in Kubernetes order).                          *)
(*                                                                         *)
(* Layer A: RunningMatchesDisk, FailureImpliesReload (C02);                *)
(* NoNeedlessReload, NoopIsNoop, SlotsAfterReload (C11).  They only read   *)
(* `run`, `file` and the observation record `obs`, which is also what the  *)
(* harness records from the real instance + simulated HAProxy.             *)
(***************************************************************************)
EXTENDS Integers, Sequences, FiniteSets, TLC, Json

CONSTANTS Targets,     \* endpoint addresses, naturals > 0 (their order is the order of sort.Strings on ip:port)
          Weights,     \* weights an endpoint can have: 1 = ready, 0 = not ready under drain-support
          MinFree,     \* slots-min-free
          Block,       \* backend-server-slots-increment
          MaxUpdates,
          MaxFault     \* fault positions 0..MaxFault-1 (index of the socket command answered badly), -1 = none

VARIABLES eps,        \* Endpoints object: set of [t, w] without repeated t
          slots,      \* committed model of the backend: sequence of [n, t, w, en]; t = 0 is an empty slot
          run,        \* running HAProxy: slot name -> [up, t, w]
          file,       \* what the files on disk would load to: slot name -> [up, t, w]
          committed,  \* hasCommittedData()
          nupd,
          obs,        \* observation of the last update: [kind, reload, faulted, ncmd, fits, same, ...]
          hist        \* the updates so far, [eps, fault]: the behaviour handed to the replay (hidden by NoHist)

vars == <<eps, slots, run, file, committed, nupd, obs, hist>>
NoHist == <<eps, slots, run, file, committed, nupd, obs>>

Ep(n, t, w, en) == [n |-> n, t |-> t, w |-> w, en |-> en]
EmptyEp(n)      == Ep(n, 0, 0, FALSE)
IsEmpty(e)      == e.t = 0
BlockSzOf(bl)   == IF bl < 1 THEN 1 ELSE bl
BlockSz         == BlockSzOf(Block)

RECURSIVE SeqByT(_)
SeqByT(S) == IF S = {} THEN <<>>
             ELSE LET m == CHOOSE x \in S : \A y \in S : x.t <= y.t IN <<m>> \o SeqByT(S \ {m})

(* the backend as the converter re-creates it (utils.CreateEndpoints sorts by target): ready addresses
   first, then (drain-support) the not-ready ones with weight 0; sequential names, all enabled *)
Fresh(es) == LET o == SeqByT({e \in es : e.w > 0}) \o SeqByT({e \in es : e.w = 0})
             IN [i \in 1..Len(o) |-> Ep(i, o[i].t, o[i].w, TRUE)]

RECURSIVE AddEmpties(_, _)
AddEmpties(s, k) == IF k <= 0 THEN s ELSE AddEmpties(Append(s, EmptyEp(Len(s) + 1)), k - 1)

NumFree(s) == Cardinality({i \in 1..Len(s) : IsEmpty(s[i])})

(* dynUpdater.alignSlots *)
AlignWith(s, mf, bl) ==
    IF mf = 0 /\ Len(s) = 0 THEN AddEmpties(s, BlockSzOf(bl))
    ELSE LET s1 == AddEmpties(s, mf - NumFree(s))
             nf == BlockSzOf(bl) - (((Len(s1) + BlockSzOf(bl) - 1) % BlockSzOf(bl)) + 1)
         IN  AddEmpties(s1, nf)

Align(s) == AlignWith(s, MinFree, Block)

NonEmpty(s) == {s[i] : i \in {j \in 1..Len(s) : ~IsEmpty(s[j])}}

(* Backends.Shrink / backendsMatch: same non-empty endpoints (names included), not more slots *)
ShrinkMatch(cur, old) == Len(cur) <= Len(old) /\ NonEmpty(cur) = NonEmpty(old)

Table(s) == [n \in {s[i].n : i \in 1..Len(s)} |->
                LET e == s[CHOOSE i \in 1..Len(s) : s[i].n = n] IN
                IF e.en THEN [up |-> TRUE, t |-> e.t, w |-> e.w] ELSE [up |-> FALSE, t |-> 0, w |-> 0]]

RECURSIVE SortedSeq(_)
SortedSeq(S) == IF S = {} THEN <<>>
                ELSE LET m == CHOOSE x \in S : \A y \in S : x <= y IN <<m>> \o SortedSeq(S \ {m})

IndexOfT(s, t) == CHOOSE i \in 1..Len(s) : s[i].t = t
HasT(s, t)     == \E i \in 1..Len(s) : s[i].t = t

(***************************************************************************)
(* checkBackendPair for a dynamic backend.  acc = [names, added, empty,    *)
(* cmds]: names[i] is the slot name given to cur[i]; added are indexes of  *)
(* cur not yet placed; empty are free slot names; cmds the exec* calls.    *)
(***************************************************************************)
EnableCmd(n, t, w) == [op |-> "enable", n |-> n, t |-> t, w |-> w]
DisableCmd(n)      == [op |-> "disable", n |-> n, t |-> 0, w |-> 0]

RECURSIVE PairTargets(_, _, _, _)
PairTargets(tg, old, cur, acc) ==
    IF tg = <<>> THEN acc
    ELSE LET t  == Head(tg)
             o  == old[IndexOfT(old, t)]
         IN
         IF HasT(cur, t)
         THEN \* same target on both sides: keep the slot, re-send only if something differs
              LET ci == IndexOfT(cur, t)
                  c  == cur[ci]
                  same == c.w = o.w
              IN PairTargets(Tail(tg), old, cur,
                    [acc EXCEPT !.names[ci] = o.n,
                                !.cmds = IF same THEN @ ELSE Append(@, EnableCmd(o.n, c.t, c.w))])
         ELSE IF acc.added # <<>>
         THEN \* a new endpoint takes over the slot of a removed one
              LET ci == Head(acc.added)
                  c  == cur[ci]
              IN PairTargets(Tail(tg), old, cur,
                    [acc EXCEPT !.names[ci] = o.n, !.added = Tail(@),
                                !.cmds = Append(@, EnableCmd(o.n, c.t, c.w))])
         ELSE \* removed endpoint: the slot becomes empty
              PairTargets(Tail(tg), old, cur,
                    [acc EXCEPT !.empty = Append(@, o.n), !.cmds = Append(@, DisableCmd(o.n))])

RECURSIVE FillEmpty(_, _)
FillEmpty(cur, acc) ==
    IF acc.added = <<>> THEN acc
    ELSE LET ci == Head(acc.added)
             n  == Head(acc.empty)
         IN FillEmpty(cur, [acc EXCEPT !.names[ci] = n, !.added = Tail(@), !.empty = Tail(@),
                                       !.cmds = Append(@, EnableCmd(n, cur[ci].t, cur[ci].w))])

Pair(old, cur) ==
    LET oldEnabledT == {old[i].t : i \in {j \in 1..Len(old) : old[j].en}}
        oldEmpty    == SelectSeq(old, LAMBDA e : ~e.en)
        addedIdx    == SelectSeq([i \in 1..Len(cur) |-> i], LAMBDA i : cur[i].t \notin oldEnabledT)
        acc0        == [names |-> [i \in 1..Len(cur) |-> cur[i].n], added |-> addedIdx,
                        empty |-> [i \in 1..Len(oldEmpty) |-> oldEmpty[i].n], cmds |-> <<>>]
        acc1        == PairTargets(SortedSeq(oldEnabledT), old, cur, acc0)
        acc2        == FillEmpty(cur, acc1)
        renamed     == [i \in 1..Len(cur) |-> [cur[i] EXCEPT !.n = acc2.names[i]]]
        rest        == [i \in 1..Len(acc2.empty) |-> EmptyEp(acc2.empty[i])]
    IN [cur |-> renamed \o rest, cmds |-> acc2.cmds]

RECURSIVE ApplyCmds(_, _)
ApplyCmds(r, cmds) ==
    IF cmds = <<>> THEN r
    ELSE LET c == Head(cmds) IN
         ApplyCmds([r EXCEPT ![c.n] = IF c.op = "enable" THEN [up |-> TRUE, t |-> c.t, w |-> c.w]
                                                        ELSE [up |-> FALSE, t |-> 0, w |-> 0]],
                   Tail(cmds))

(***************************************************************************)
(* One HAProxyUpdate.  f is the index of the socket command that is        *)
(* answered badly (each exec* call is three socket commands), -1 = none.   *)
(***************************************************************************)
OutcomeWith(old, es, isCommitted, f, mf, bl) ==
    LET cur0 == Fresh(es)
        Al(x) == AlignWith(x, mf, bl) IN
    IF ~isCommitted
    THEN [kind |-> "reload", slots |-> Al(cur0), ncmd |-> 0, faulted |-> FALSE, cmds |-> <<>>]
    ELSE IF ShrinkMatch(cur0, old)
    THEN [kind |-> "noop", slots |-> old, ncmd |-> 0, faulted |-> FALSE, cmds |-> <<>>]
    ELSE IF Len(old) < Len(cur0)
    THEN [kind |-> "reload", slots |-> Al(cur0), ncmd |-> 0, faulted |-> FALSE, cmds |-> <<>>]
    ELSE LET p == Pair(old, cur0)
             n == 3 * Len(p.cmds)
         IN IF f >= 0 /\ f < n
            THEN [kind |-> "reload", slots |-> Al(p.cur), ncmd |-> n, faulted |-> TRUE, cmds |-> p.cmds]
            ELSE [kind |-> IF n > 0 THEN "dynamic" ELSE "noop", slots |-> p.cur, ncmd |-> n, faulted |-> FALSE,
                  cmds |-> p.cmds]

Outcome(old, es, isCommitted, f) == OutcomeWith(old, es, isCommitted, f, MinFree, Block)

EpsSets == {S \in SUBSET [t : Targets, w : Weights] : \A x, y \in S : x.t = y.t => x = y}

Update(es, f) ==
    /\ nupd < MaxUpdates
    /\ LET o == Outcome(slots, es, committed, f) IN
       /\ slots' = o.slots
       /\ IF o.kind = "reload"
          THEN file' = Table(o.slots) /\ run' = Table(o.slots)
          ELSE IF o.kind = "dynamic"
          THEN file' = Table(o.slots) /\ run' = ApplyCmds(run, o.cmds)
          ELSE UNCHANGED <<file, run>>
       /\ obs' = [kind |-> o.kind, reload |-> o.kind = "reload", faulted |-> o.faulted, ncmd |-> o.ncmd,
                  first |-> ~committed,
                  fits |-> Cardinality(es) <= Len(slots),
                  same |-> es = eps,
                  eps |-> es, fault |-> f]
    /\ eps' = es
    /\ hist' = Append(hist, [eps |-> es, fault |-> f])
    /\ committed' = TRUE
    /\ nupd' = nupd + 1

Init ==
    /\ eps = {} /\ slots = <<>> /\ run = << >> /\ file = << >>
    /\ committed = FALSE /\ nupd = 0 /\ hist = <<>>
    /\ obs = [kind |-> "init", reload |-> FALSE, faulted |-> FALSE, ncmd |-> 0, first |-> FALSE, fits |-> TRUE,
              same |-> FALSE, eps |-> {}, fault |-> -1]

Next == \E es \in EpsSets, f \in -1..(MaxFault - 1) : Update(es, f)

Spec == Init /\ [][Next]_vars

---------------------------------------------------------------------------
(* Layer A *)

(* C02: whenever an update went through without a reload (and after a reload as well),
   the running table equals what the files would load to *)
RunningMatchesDisk == run = file

(* C02: a command that failed or was answered unexpectedly ends in a reload *)
FailureImpliesReload == obs.faulted => obs.reload

(* C11: an endpoints-only change that fits in the slots and whose commands all succeed stays dynamic *)
NoNeedlessReload == (~obs.first /\ obs.fits /\ ~obs.faulted) => ~obs.reload

(* C11: re-notifying unchanged endpoints never reloads *)
NoopIsNoop == (~obs.first /\ obs.same) => ~obs.reload

(* C11: every reload leaves >= min-free empty slots and a slot count that is a multiple of the increment *)
FreeSlots(tb)  == Cardinality({n \in DOMAIN tb : ~tb[n].up})
SlotsAfterReload ==
    obs.reload => /\ FreeSlots(file) >= MinFree
                  /\ Cardinality(DOMAIN file) % BlockSz = 0

(* the model the next update starts from describes the files *)
ModelIsFile == committed => Table(slots) = file

(* slot names stay unique *)
NamesUnique == \A i, j \in 1..Len(slots) : i # j => slots[i].n # slots[j].n

(* behaviours for the replay on the real instance *)
EmitBehaviour == nupd = MaxUpdates => PrintT(<<"BEHAVIOUR", ToJson(hist)>>)

=============================================================================
