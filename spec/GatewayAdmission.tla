-------------------------- MODULE GatewayAdmission --------------------------
(***************************************************************************)
(* Gateway API attachment (property C10).                                  *)
(*                                                                         *)
(* A world holds: the GatewayClass situation of gateway g/gw, a foreign    *)
(* class gateway g/fgw whose listeners admit everything, two listeners of  *)
(* g/gw (L1 port 7001, L2 port 7002) with every allowedRoutes form, the    *)
(* `tier` label of the namespaces g and r, and up to two routes (HTTPRoute *)
(* or TCPRoute, in g or r) with one or two parentRefs and weighted         *)
(* backendRefs.  Admitted() is an independent evaluation of the Gateway    *)
(* API attachment rules as the documentation of the controller states      *)
(* them; Expected*() say what an admitted (listener, route) pair puts in   *)
(* the configuration.  TLC builds worlds by mutation (histories: the       *)
(* harness applies the object changes to the real pipeline step by step),  *)
(* and enumerates the two factors of the admission conjunction             *)
(* exhaustively (gateway resolution; listener admission).                  *)
(***************************************************************************)
EXTENDS Integers, Sequences, FiniteSets, TLC, Json

CONSTANTS MaxSteps,   \* worlds per history
          MaxMut,     \* mutations between two committed worlds
          Mode        \* "walk" | "resolve" | "listener" | "conflict"

GwGroup == "gateway.networking.k8s.io"

(* ours2: a second GatewayClass of this controller.  own3 / gone3 / alien3: the gateway names the class haproxy3, which
   exists and is ours / does not exist (any more) / belongs to another controller -- one name, changing over a history *)
Classes   == {"ours", "ours2", "foreign", "missing", "own3", "gone3", "alien3"}
Ours      == {"ours", "ours2", "own3"}
Protos    == {"HTTP", "TCP"}
(* kinds: no entry; an entry for one kind / both / another kind of the gateway group (group not set); CoreGroup: entries for both
   kinds with group "" (the core group, not the Gateway API one); GwGroup: both kinds with the gateway group spelled out *)
KindsVals == {"empty", "HTTPRoute", "TCPRoute", "Other", "Both", "CoreGroup", "GwGroup"}
(* namespaces: allowedRoutes missing; from missing; Same; All; Selector with matchLabels tier=web / tier=db; Selector without
   selector; Selector with matchExpressions tier In (web) / tier NotIn (web); matchLabels tier=web and matchExpressions tier NotIn (web) *)
FromVals  == {"noallowed", "nofrom", "Same", "All", "SelWeb", "SelDb", "SelNil", "ExprInWeb", "ExprNotInWeb", "SelWebExprNotWeb"}
Labels    == {"web", "db"}
(* the namespace of the routes may also carry no label at all: a selector made of negative expressions only still selects it *)
RouteLabels == Labels \cup {"none"}
RouteKinds == {"HTTPRoute", "TCPRoute"}
RouteNs   == {"g", "r"}
RefNames  == {"gw", "fgw", "nogw"}
RefNs     == {"", "g", "r", "x"}
Sections  == {"", "L1", "L2", "nosuch"}
RefKinds  == {"", "Gateway", "Service"}
RefGroups == {"", GwGroup, "other.io"}
(* backendRefs: services s1 (1 replica), s2 (2), s3 (3); weight -1 = not declared *)
BackSeqs  == { <<[s |-> 1, w |-> -1]>>,
               <<[s |-> 1, w |-> 3], [s |-> 2, w |-> -1]>>,
               <<[s |-> 2, w |-> -1], [s |-> 1, w |-> 4], [s |-> 3, w |-> -1]>>,
               <<[s |-> 3, w |-> 2], [s |-> 2, w |-> 2]>>,
               <<[s |-> 1, w |-> 0], [s |-> 3, w |-> 7]>>,
               <<[s |-> 2, w |-> 200], [s |-> 3, w |-> 1]>>,
               \* s = 9: a Service that does not exist -- the reference is skipped, the others keep their own weights
               <<[s |-> 9, w |-> 1], [s |-> 1, w |-> 3], [s |-> 2, w |-> 1]>>,
               <<[s |-> 3, w |-> 5], [s |-> 9, w |-> 9], [s |-> 1, w |-> 1]>>,
               \* s = 8: a Service without ready endpoints -- the rule keeps its (empty) backend
               <<[s |-> 8, w |-> -1]>>,
               <<[s |-> 8, w |-> 2], [s |-> 2, w |-> 2]>>,
               \* the same Service behind two backendRefs: its servers are listed once per reference, each with the weight of its own reference
               <<[s |-> 1, w |-> 1], [s |-> 2, w |-> 2], [s |-> 1, w |-> 1]>>,
               <<[s |-> 2, w |-> 3], [s |-> 2, w |-> 3]>> }

(* replicas behind a backendRef *)
ReplOf(s) == IF s \in {8, 9} THEN 0 ELSE s

Listener == [proto : Protos, host : {"own", "none"}, kinds : KindsVals, from : FromVals]
Ref      == [name : RefNames, ns : RefNs, section : Sections, kind : RefKinds, group : RefGroups]
OpenL(p) == [proto |-> p, host |-> "own", kinds |-> "empty", from |-> "All"]
PlainRef == [name |-> "gw", ns |-> "g", section |-> "", kind |-> "", group |-> ""]
NoRoute  == [kind |-> "none"]
MkRoute(k, n, refs, hn, b) == [kind |-> k, ns |-> n, refs |-> refs, hostnames |-> hn, backs |-> b]

ListenerIds == {1, 2}
LName(i) == IF i = 1 THEN "L1" ELSE "L2"
LPort(i) == 7000 + i
LHostOwn(i) == IF i = 1 THEN "l1.local" ELSE "l2.local"
RouteSlots == {1, 2}

---------------------------------------------------------------------------
(* the attachment rules *)

RefIsGateway(ref) ==
    /\ ref.group \in {"", GwGroup}
    /\ ref.kind \in {"", "Gateway"}

RefNamespace(rt, ref) == IF ref.ns = "" THEN rt.ns ELSE ref.ns

(* the parent the reference resolves to is g/gw, and its class belongs to this controller *)
ResolvesToOurs(w, rt, ref) ==
    /\ RefIsGateway(ref)
    /\ ref.name = "gw" /\ RefNamespace(rt, ref) = "g"
    /\ w.class \in Ours

KindAdmits(l, kind) ==
    CASE l.kinds = "empty" -> TRUE
      [] l.kinds \in {"Both", "GwGroup"} -> TRUE
      [] l.kinds \in {"Other", "CoreGroup"} -> FALSE
      [] OTHER -> l.kinds = kind

NsAdmits(w, l, ns) ==
    CASE l.from = "Same" -> ns = "g"
      [] l.from = "All" -> TRUE
      [] l.from = "SelWeb" -> w.label[ns] = "web"
      [] l.from = "SelDb" -> w.label[ns] = "db"
      [] l.from = "ExprInWeb" -> w.label[ns] = "web"
      [] l.from = "ExprNotInWeb" -> w.label[ns] # "web"
      [] l.from = "SelWebExprNotWeb" -> FALSE
      [] OTHER -> FALSE        \* no allowedRoutes, no namespaces.from, selector missing

Admitted(w, rt, ref, i) ==
    /\ ResolvesToOurs(w, rt, ref)
    /\ ref.section \in {"", LName(i)}
    /\ KindAdmits(w.l[i], rt.kind)
    /\ NsAdmits(w, w.l[i], rt.ns)

AdmittedPair(w, k, i) ==
    /\ w.rt[k].kind # "none"
    /\ \E j \in 1..Len(w.rt[k].refs) : Admitted(w, w.rt[k], w.rt[k].refs[j], i)

(* The documentation leaves the listener protocol out of the rules for HTTPRoute and the Gateway API derives the
   admitted kinds from it when allowedRoutes.kinds is empty: pairs whose route kind does not fit the listener
   protocol are not judged either way. *)
DontCare(w, k, i) ==
    /\ w.rt[k].kind # "none"
    /\ (w.l[i].proto = "HTTP") # (w.rt[k].kind = "HTTPRoute")

(* the older route (slot 1) has the greater name: creation time, not the name, decides a conflict *)
RtName(k) == IF k = 1 THEN "rtz" ELSE "rta"
(* samepath: both routes declare the same path, so they conflict on every hostname they share *)
RtPath(w, k) == IF k = 1 \/ w.samepath THEN "/p1" ELSE "/p2"
HTTPBackend(w, k) == w.rt[k].ns \o "_" \o RtName(k) \o "__rule0"
TCPBackend(w, k) == w.rt[k].ns \o "_" \o RtName(k) \o "__tcprule0"

RouteHostSet(n) == IF n = 0 THEN {"<default>"} ELSE IF n = 1 THEN {"h1.local"} ELSE {"h1.local", "h2.local"}

(* hostnames an admitted HTTPRoute gets through listener i: the listener hostname replaces the ones of the route *)
HostsOf(w, k, i) == IF w.l[i].host = "own" THEN {LHostOwn(i)} ELSE RouteHostSet(w.rt[k].hostnames)

Out(w, k, i) == {[h |-> h, p |-> RtPath(w, k), ty |-> "prefix", s |-> HTTPBackend(w, k)] : h \in HostsOf(w, k, i)}

HTTPSlots(w) == {k \in RouteSlots : w.rt[k].kind = "HTTPRoute"}
TCPSlots(w)  == {k \in RouteSlots : w.rt[k].kind = "TCPRoute"}

(* the oldest admitted TCPRoute gets the port of the listener; 0 = nobody *)
TCPOwner(w, i) ==
    LET c == {k \in TCPSlots(w) : AdmittedPair(w, k, i)} IN
    IF c = {} THEN 0 ELSE CHOOSE k \in c : \A k2 \in c : k <= k2

---------------------------------------------------------------------------
(* Layer A: what a recorded observation must satisfy.
   obs = [routes : set of [h,p,ty,s], tcp : set of [port, s], backs : set of [s, grp : seq of seq of weights]] *)

(* HTTP rules are judged per (hostname, path): the oldest route admitted for it owns it; a key that a don't-care pair
   could produce is not judged *)
KeyOfOut(o) == [h |-> o.h, p |-> o.p]
PairKeys(w, k, i) == {KeyOfOut(o) : o \in Out(w, k, i)}
AllKeys(w) == UNION {PairKeys(w, k, i) : k \in HTTPSlots(w), i \in ListenerIds}
KeyDontCare(w, key) == \E k \in HTTPSlots(w), i \in ListenerIds : DontCare(w, k, i) /\ key \in PairKeys(w, k, i)
MustHave(w, k, key) == \E i \in ListenerIds : ~DontCare(w, k, i) /\ AdmittedPair(w, k, i) /\ key \in PairKeys(w, k, i)
KeyOwner(w, key) ==
    LET c == {k \in HTTPSlots(w) : MustHave(w, k, key)} IN
    IF c = {} THEN 0 ELSE CHOOSE k \in c : \A k2 \in c : k <= k2
ObservedFor(obs, key) == {o.s : o \in {x \in obs.routes : x.h = key.h /\ x.p = key.p}}

(* an admitted pair's rule is missing *)
MissingRule(w, obs) ==
    {key \in AllKeys(w) : ~KeyDontCare(w, key) /\ KeyOwner(w, key) # 0 /\ ObservedFor(obs, key) = {}}
(* a rule nobody is admitted for *)
LeakedRule(w, obs) ==
    {key \in AllKeys(w) : ~KeyDontCare(w, key) /\ KeyOwner(w, key) = 0 /\ ObservedFor(obs, key) # {}}
(* the rule goes to another route than the oldest admitted one *)
WrongOwner(w, obs) ==
    {key \in AllKeys(w) : ~KeyDontCare(w, key) /\ KeyOwner(w, key) # 0 /\ ObservedFor(obs, key) # {}
                          /\ ObservedFor(obs, key) # {HTTPBackend(w, KeyOwner(w, key))}}
Unattributed(w, obs) == {o \in obs.routes : KeyOfOut(o) \notin AllKeys(w) \/ o.ty # "prefix"}

TCPBad(w, obs) ==
    {i \in ListenerIds :
        /\ ~\E k \in TCPSlots(w) : DontCare(w, k, i)
        /\ LET o == TCPOwner(w, i)
               seen == {t.s : t \in {x \in obs.tcp : x.port = LPort(i)}} IN
           IF o = 0 THEN seen # {} ELSE seen # {TCPBackend(w, o)}}

TCPForeign(w, obs) == {t \in obs.tcp : t.port \notin {LPort(i) : i \in ListenerIds}}

---------------------------------------------------------------------------
(* worlds and the histories TLC proposes *)

VARIABLES w, hist, nmut
vars == <<w, hist, nmut>>

(* at most one listener without a hostname of its own, so that every produced rule names its listener *)
Valid(x) == ~(x.l[1].host = "none" /\ x.l[2].host = "none")

World0 == [class |-> "ours", label |-> [g |-> "web", r |-> "db"],
           l |-> <<OpenL("HTTP"), OpenL("TCP")>>, rt |-> <<NoRoute, NoRoute>>, samepath |-> FALSE]

OneRoute(x, rt) == [x EXCEPT !.rt = <<rt, NoRoute>>]

(* factor 1: which parent a reference resolves to, and whose class it is (listeners admit everything) *)
ResolveWorlds ==
    {OneRoute([World0 EXCEPT !.class = c], MkRoute(k, n, <<[PlainRef EXCEPT !.name = rn, !.ns = rns, !.kind = rk, !.group = rg]>>, 1, <<[s |-> 1, w |-> -1]>>)) :
        c \in Classes, k \in RouteKinds, n \in RouteNs, rn \in RefNames, rns \in RefNs, rk \in RefKinds, rg \in RefGroups}

(* factor 2: which listeners of a resolved parent admit the route *)
ListenerWorlds ==
    {OneRoute([World0 EXCEPT !.label = [g |-> lg, r |-> lr], !.l = <<[proto |-> pr, host |-> "own", kinds |-> kd, from |-> fr], OpenL(IF pr = "HTTP" THEN "TCP" ELSE "HTTP")>>],
              MkRoute(k, n, <<[PlainRef EXCEPT !.section = sc]>>, 1, <<[s |-> 1, w |-> -1]>>)) :
        lg \in Labels, lr \in RouteLabels, pr \in Protos, kd \in KindsVals, fr \in FromVals, k \in RouteKinds, n \in RouteNs, sc \in Sections}

(* conflicts: two routes that declare the same path (or the same TCP port) through the same listeners *)
ConflictWorlds ==
    {[World0 EXCEPT !.samepath = sp, !.l = <<[OpenL("HTTP") EXCEPT !.host = h1], OpenL(p2)>>,
                    !.rt = <<MkRoute(k1, n1, <<PlainRef>>, hn1, b1), MkRoute(k2, n2, <<PlainRef>>, hn2, b2)>>] :
        sp \in BOOLEAN, h1 \in {"own", "none"}, p2 \in Protos, k1 \in RouteKinds, k2 \in RouteKinds, n1 \in RouteNs, n2 \in RouteNs,
        hn1 \in 0..2, hn2 \in 0..2,
        b1 \in {<<[s |-> 1, w |-> 3], [s |-> 2, w |-> -1]>>, <<[s |-> 3, w |-> 2], [s |-> 2, w |-> 2]>>},
        b2 \in {<<[s |-> 2, w |-> -1], [s |-> 1, w |-> 4], [s |-> 3, w |-> -1]>>, <<[s |-> 1, w |-> -1]>>}}

(* one parentRef per listener of the same gateway *)
SectionWorlds ==
    {[World0 EXCEPT !.l = <<OpenL(p1), OpenL(p2)>>,
                    !.rt = <<MkRoute(k, n, <<[PlainRef EXCEPT !.section = s1], [PlainRef EXCEPT !.section = s2]>>, hn, b), NoRoute>>] :
        p1 \in Protos, p2 \in Protos, k \in RouteKinds, n \in RouteNs, s1 \in Sections, s2 \in Sections, hn \in 0..1,
        b \in {<<[s |-> 1, w |-> -1]>>, <<[s |-> 8, w |-> -1]>>}}

Init ==
    /\ hist = <<>> /\ nmut = 0
    /\ CASE Mode = "walk" -> w = World0
         [] Mode = "resolve" -> w \in ResolveWorlds
         [] Mode = "listener" -> w \in ListenerWorlds
         [] Mode = "conflict" -> w \in ConflictWorlds
         [] Mode = "sections" -> w \in SectionWorlds

Mutate(x) == w' = x /\ x # w /\ Valid(x) /\ nmut' = nmut + 1 /\ UNCHANGED hist

(* every step starts by drawing the class situation again (it may stay as it is) *)
PickClass == \E c \in Classes : w' = [w EXCEPT !.class = c] /\ nmut' = 1 /\ UNCHANGED hist
(* namespaces are not watched: their labels are part of the initial world only *)
SetLabel == hist = <<>> /\ \E n \in RouteNs, v \in Labels : Mutate([w EXCEPT !.label[n] = v])
SetListener ==
    \E i \in ListenerIds :
        \/ \E v \in Protos : Mutate([w EXCEPT !.l[i].proto = v])
        \/ \E v \in {"own", "none"} : Mutate([w EXCEPT !.l[i].host = v])
        \/ \E v \in KindsVals : Mutate([w EXCEPT !.l[i].kinds = v])
        \/ \E v \in FromVals : Mutate([w EXCEPT !.l[i].from = v])
AddRoute ==
    \E k \in RouteSlots, kd \in RouteKinds, n \in RouteNs, hn \in 0..2, b \in BackSeqs :
        w.rt[k].kind = "none" /\ Mutate([w EXCEPT !.rt[k] = MkRoute(kd, n, <<PlainRef>>, hn, b)])
SetSamePath == Mutate([w EXCEPT !.samepath = ~@])
DelRoute == \E k \in RouteSlots : w.rt[k].kind # "none" /\ Mutate([w EXCEPT !.rt[k] = NoRoute])
SetRoute ==
    \E k \in RouteSlots :
        /\ w.rt[k].kind # "none"
        /\ \/ \E hn \in 0..2 : Mutate([w EXCEPT !.rt[k].hostnames = hn])
           \/ \E b \in BackSeqs : Mutate([w EXCEPT !.rt[k].backs = b])
           \/ Len(w.rt[k].refs) = 1 /\ Mutate([w EXCEPT !.rt[k].refs = Append(@, PlainRef)])
           \/ Len(w.rt[k].refs) = 2 /\ Mutate([w EXCEPT !.rt[k].refs = <<@[1]>>])
           \/ \E j \in 1..Len(w.rt[k].refs) :
                \/ \E v \in RefNames : Mutate([w EXCEPT !.rt[k].refs[j].name = v])
                \/ \E v \in RefNs : Mutate([w EXCEPT !.rt[k].refs[j].ns = v])
                \/ \E v \in Sections : Mutate([w EXCEPT !.rt[k].refs[j].section = v])
                \/ \E v \in RefKinds : Mutate([w EXCEPT !.rt[k].refs[j].kind = v])
                \/ \E v \in RefGroups : Mutate([w EXCEPT !.rt[k].refs[j].group = v])

Commit == /\ hist' = Append(hist, w) /\ nmut' = 0 /\ UNCHANGED w

Next ==
    /\ Len(hist) < MaxSteps
    /\ \/ Mode = "walk" /\ nmut = 0 /\ PickClass
       \/ Mode = "walk" /\ nmut > 0 /\ nmut <= MaxMut /\ (SetLabel \/ SetListener \/ AddRoute \/ DelRoute \/ SetRoute \/ SetSamePath)
       \/ (Mode # "walk" \/ nmut > 1) /\ Commit

Spec == Init /\ [][Next]_vars

(* design-level sanity: the rules are a conjunction -- a route is admitted by a listener only when the parent is
   ours, and everything the world would produce is attributed to a pair *)
RulesOK ==
    \A k \in RouteSlots, i \in ListenerIds :
        AdmittedPair(w, k, i) =>
            /\ w.class \in Ours
            /\ w.l[i].from \in {"Same", "All", "SelWeb", "SelDb", "ExprInWeb", "ExprNotInWeb"}
            /\ w.l[i].kinds \notin {"Other", "CoreGroup"}
            /\ (w.l[i].from = "Same" => w.rt[k].ns = "g")

Emit == (Len(hist) = MaxSteps) => PrintT(<<"BEHAVIOUR", ToJson(hist)>>)
=============================================================================
