------------------------------- MODULE HAConfig -------------------------------
(***************************************************************************)
(* What HAProxy's loader demands of a configuration, over the facts that   *)
(* harness/cfgnf extracts from the written files (property C07), and the   *)
(* request-level semantics of the generated frontends and maps (C03, C04,  *)
(* C15, C18 -- see Maps.tla for the lookup operators).                     *)
(*                                                                         *)
(* Facts f (one record per set of loaded files):                           *)
(*   defs         <<"kind name", ...>> one entry per section definition    *)
(*   backendrefs  <<[from, to], ...>> use_backend / default_backend /      *)
(*                entries of maps whose value selects a backend            *)
(*   userlistrefs <<[from, to], ...>> http_auth(<userlist>)                *)
(*   backends     <<[name, servers, serverids, idsused, idsdef], ...>>     *)
(*   authports, authsockids, missing                                       *)
(***************************************************************************)
EXTENDS Integers, Sequences, FiniteSets, TLC

ToSetH(t) == {t[i] : i \in 1..Len(t)}
Count(t, x) == Cardinality({i \in 1..Len(t) : t[i] = x})
Unique(t) == Cardinality(ToSetH(t)) = Len(t)

BackendDefined(f, name) ==
    Count(f.defs, "backend " \o name) + Count(f.defs, "listen " \o name) = 1

(* each reference names exactly one section *)
RefsResolve(f) ==
    /\ \A i \in 1..Len(f.backendrefs) : BackendDefined(f, f.backendrefs[i].to)
    /\ \A i \in 1..Len(f.userlistrefs) : Count(f.defs, "userlist " \o f.userlistrefs[i].to) = 1

(* no section is defined twice *)
SectionsUnique(f) == Unique(f.defs)

(* every referenced map, crt-list and certificate file was written *)
FilesPresent(f) == Len(f.missing) = 0

(* inside a backend: unique server names and ids, ACLs only use path ids of its own id maps *)
BackendsOK(f) ==
    \A i \in 1..Len(f.backends) :
        LET b == f.backends[i] IN
        /\ Unique(b.servers)
        /\ Unique(b.serverids)
        /\ ToSetH(b.idsused) \subseteq ToSetH(b.idsdef)

(* internal auth-proxy ports and socket ids are not allocated twice *)
AuthProxyOK(f) == Unique(f.authports) /\ Unique(f.authsockids)

WellFormedParts(f) ==
    [RefsResolve |-> RefsResolve(f), SectionsUnique |-> SectionsUnique(f), FilesPresent |-> FilesPresent(f),
     BackendsOK |-> BackendsOK(f), AuthProxyOK |-> AuthProxyOK(f)]

WellFormed(f) ==
    RefsResolve(f) /\ SectionsUnique(f) /\ FilesPresent(f) /\ BackendsOK(f) /\ AuthProxyOK(f)

FirstBroken(f) ==
    IF ~RefsResolve(f) THEN "RefsResolve"
    ELSE IF ~SectionsUnique(f) THEN "SectionsUnique"
    ELSE IF ~FilesPresent(f) THEN "FilesPresent"
    ELSE IF ~BackendsOK(f) THEN "BackendsOK"
    ELSE IF ~AuthProxyOK(f) THEN "AuthProxyOK" ELSE "none"
=============================================================================
