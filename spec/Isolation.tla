------------------------------ MODULE Isolation ------------------------------
(***************************************************************************)
(* Cross-namespace isolation (property C09).  A reference placed in        *)
(* namespace a and pointing to an object of namespace b is honoured only   *)
(* when the global key of that resource kind says `allow` (or, for         *)
(* secrets, --allow-cross-namespace is set).  Otherwise the written        *)
(* configuration must not depend on the foreign object at all: it equals   *)
(* the configuration written when the reference points to nothing.         *)
(***************************************************************************)
EXTENDS Integers, Sequences, FiniteSets, TLC, Json

Sites == {"tls-secret", "auth-tls-secret", "secure-crt-secret", "secure-verify-ca-secret", "auth-secret", "auth-url-svc", "gateway-certref"}
(* namespace: the namespace field of a Gateway certificateRef *)
(* file://ns/name: a file path that happens to look like the name of the foreign secret (auth-secret) *)
Forms == {"ns/name", "secret://ns/name", "namespace", "file://ns/name"}
(* prev: the settings before the ones under test -- "allow": every key allowed the reference and that state was reconciled *)
(* flip: the settings under test were in use, then allow and the settings under test again arrive in one batch *)
Prevs == {"none", "allow", "flip"}
Exposures == {"unused", "used-by-foreign-ingress"}

KeyOf(site) ==
    CASE site \in {"tls-secret", "secure-crt-secret", "gateway-certref"} -> "crt"
      [] site \in {"auth-tls-secret", "secure-verify-ca-secret"} -> "ca"
      [] site = "auth-secret" -> "passwd"
      [] site = "auth-url-svc" -> "services"

(* c = [site, form, crt, ca, passwd, services (each "allow" | "deny" | "bogus"), static, exposure] *)
Permitted(c) ==
    LET k == KeyOf(c.site) IN
    IF c.form = "file://ns/name" THEN FALSE        \* a file path grants nothing: the foreign secret must not matter
    ELSE IF k = "services" THEN c.services = "allow"
    ELSE c.static \/ c[k] = "allow"

Vals == {"allow", "deny"}
Cases == {c \in [site : Sites, form : Forms, crt : Vals \cup {"bogus"}, ca : Vals, passwd : Vals, services : Vals, static : BOOLEAN, exposure : Exposures, prev : Prevs] :
            /\ (c.site = "auth-url-svc" => c.form = "ns/name")
            /\ (c.form = "file://ns/name" => c.site = "auth-secret")
            /\ (c.form = "namespace" => c.site = "gateway-certref")
            /\ (c.site = "gateway-certref" => c.form \in {"ns/name", "namespace"})}

(* a form the controller documents as not implemented is never honoured, whatever the settings (the namespace of a Gateway
   certificateRef): only the "no influence" side is judged for it *)
Honoured(c) ==
    /\ ~(c.site = "gateway-certref" /\ c.form = "namespace")
    \* the secure-* keys refuse a value with a protocol (a malformed name); a file:// value never names a secret
    /\ ~(c.site \in {"secure-crt-secret", "secure-verify-ca-secret"} /\ c.form = "secret://ns/name")
    /\ c.form # "file://ns/name"

VARIABLE cs
Init == cs \in Cases
Next == UNCHANGED cs
Spec == Init /\ [][Next]_cs
Emit == PrintT(<<"BEHAVIOUR", ToJson(cs)>>)
=============================================================================
