------------------------------ MODULE MapLookup ------------------------------
(***************************************************************************)
(* HAProxy's map lookups (map_str / map_dir / map_beg over character       *)
(* sequences) and the documented path precedence, shared by Maps.tla (C04) *)
(* and Routing.tla (C03, C18).  See Maps.tla for the semantics assumed.    *)
(***************************************************************************)
EXTENDS Integers, Sequences, FiniteSets

Types == {"exact", "prefix", "begin"}
Delims == {"/", "?"}

IsPrefixSeq(p, s) == Len(p) <= Len(s) /\ SubSeq(s, 1, Len(p)) = p

UpperSeq == <<"A","B","C","D","E","F","G","H","I","J","K","L","M","N","O","P","Q","R","S","T","U","V","W","X","Y","Z">>
LowerSeq == <<"a","b","c","d","e","f","g","h","i","j","k","l","m","n","o","p","q","r","s","t","u","v","w","x","y","z">>
LowerChar(c) == IF \E i \in 1..26 : UpperSeq[i] = c THEN LowerSeq[CHOOSE i \in 1..26 : UpperSeq[i] = c] ELSE c
Lower(s) == [i \in 1..Len(s) |-> LowerChar(s[i])]

RECURSIVE TrimLeft(_)
TrimLeft(s) == IF s # <<>> /\ Head(s) \in Delims THEN TrimLeft(Tail(s)) ELSE s
RECURSIVE TrimRight(_)
TrimRight(s) == IF s # <<>> /\ s[Len(s)] \in Delims THEN TrimRight(SubSeq(s, 1, Len(s) - 1)) ELSE s
Trim(s) == TrimRight(TrimLeft(s))

(* HAProxy -m dir *)
DirMatch(pat, s) ==
    LET p == Trim(pat) IN
    /\ p # <<>>
    /\ \E i \in 1..(Len(s) - Len(p) + 1) :
          /\ SubSeq(s, i, i + Len(p) - 1) = p
          /\ (i = 1 \/ s[i - 1] \in Delims)
          /\ (i + Len(p) - 1 = Len(s) \/ s[i + Len(p)] \in Delims)

NoHit == "none"

WildHit(e, key) ==
    \E d \in 1..Len(key) :
        /\ key[d] = "#" /\ \A j \in 1..(d - 1) : key[j] # "#"
        /\ LET host == SubSeq(key, 1, d - 1)
               path == SubSeq(key, d + 1, Len(key))
               nl   == Len(host) - Len(e.w)
           IN /\ nl >= 1
              /\ SubSeq(host, nl + 1, Len(host)) = e.w
              /\ \A j \in 1..nl : host[j] # "."
              /\ IF e.re = "closed" THEN path = e.p ELSE IsPrefixSeq(e.p, path)

(* one match file: [method, lower, entries], entries = sequence of [k, v] *)
LookupFile(f, key0) ==
    LET key == IF f.lower THEN Lower(key0) ELSE key0
        n   == Len(f.entries)
    IN
    CASE f.method = "str" ->
            LET hit == {i \in 1..n : f.entries[i].k = key} IN
            IF hit = {} THEN NoHit ELSE f.entries[CHOOSE i \in hit : \A j \in hit : i <= j].v
      [] f.method = "beg" ->
            LET hit == {i \in 1..n : IsPrefixSeq(f.entries[i].k, key)} IN
            IF hit = {} THEN NoHit
            ELSE f.entries[CHOOSE i \in hit : \A j \in hit : Len(f.entries[i].k) > Len(f.entries[j].k)
                                                              \/ (Len(f.entries[i].k) = Len(f.entries[j].k) /\ i <= j)].v
      [] f.method = "dir" ->
            LET hit == {i \in 1..n : DirMatch(f.entries[i].k, key)} IN
            IF hit = {} THEN NoHit ELSE f.entries[CHOOSE i \in hit : \A j \in hit : i <= j].v
      [] f.method = "reg" ->
            (* map_reg: the first entry, in file order, whose regex finds the key.  Only the regexes the controller writes for
               wildcard hostnames are interpreted (cfgnf: ^[^.]+<suffix>#<path>, closed by $ or open): one label, the suffix,
               "#", then the path text -- and, when the regex is open, anything after it *)
            LET hit == {i \in 1..n : "w" \in DOMAIN f.entries[i] /\ f.entries[i].w # <<>> /\ WildHit(f.entries[i], key)} IN
            IF hit = {} THEN NoHit ELSE f.entries[CHOOSE i \in hit : \A j \in hit : i <= j].v
      [] OTHER -> NoHit

RECURSIVE LookupFiles(_, _)
LookupFiles(files, key) ==
    IF files = <<>> THEN NoHit
    ELSE LET v == LookupFile(Head(files), key) IN IF v # NoHit THEN v ELSE LookupFiles(Tail(files), key)

---------------------------------------------------------------------------
(* the oracle *)

NormPrefix(p) == IF Len(p) > 1 /\ p[Len(p)] = "/" THEN SubSeq(p, 1, Len(p) - 1) ELSE p

ElemPrefix(p, s) ==
    LET q == NormPrefix(p) IN
    IF q = <<"/">> THEN IsPrefixSeq(q, s)
    ELSE s = q \/ IsPrefixSeq(q \o <<"/">>, s)

Matches(r, h, path) ==
    /\ r.h = h
    /\ CASE r.ty = "exact"  -> r.p = path
         [] r.ty = "prefix" -> ElemPrefix(r.p, path)
         [] r.ty = "begin"  -> IsPrefixSeq(Lower(r.p), Lower(path))

DeclLen(r) == Len(r.p)     \* the declared text: "/a/" is longer than "/a" although both prefix rules match the same requests

(* the rules that may legitimately win *)
Longest(rules, h, path) ==
    LET ex == {r \in rules : r.ty = "exact" /\ Matches(r, h, path)}
        ne == {r \in rules : r.ty # "exact" /\ Matches(r, h, path)}
    IN IF ex # {} THEN ex
       ELSE {r \in ne : \A o \in ne : DeclLen(r) >= DeclLen(o)}

RuleId(r) == r.id

PathPrecedence(rules, files, h, path, key) ==
    LET got == LookupFiles(files, key)
        ok  == Longest(rules, h, path)
    IN IF ok = {} THEN got = NoHit ELSE got \in {RuleId(r) : r \in ok}

NoCrossHost(rules, files, h, key) ==
    LET got == LookupFiles(files, key) IN
    got = NoHit \/ \E r \in rules : RuleId(r) = got /\ r.h = h

=============================================================================
