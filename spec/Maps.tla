-------------------------------- MODULE Maps --------------------------------
(***************************************************************************)
(* Path precedence in the generated maps (property C04).                   *)
(*                                                                         *)
(* Strings that must be inspected are sequences of one-character strings.  *)
(* HAProxy's lookup semantics (trusted, from its configuration manual and  *)
(* pattern.c): map_str = exact match of the whole key; map_beg = the       *)
(* longest pattern that is a prefix of the key; map_dir = the first        *)
(* pattern, in file order, whose delimiter-trimmed text equals a portion   *)
(* of the key that starts at the beginning or after a delimiter and ends   *)
(* at the end or before a delimiter (delimiters: / and ?).  The frontend   *)
(* tries the match files in their emitted order and the first hit wins;    *)
(* `lower` files are looked up with the lower-cased key.                   *)
(*                                                                         *)
(* The oracle is the documented rule: an exact rule equal to the path      *)
(* wins, otherwise the matching rule with the longest declared path;       *)
(* prefix matches whole path elements, begin is a case-insensitive string  *)
(* prefix; one path declared with two non-exact types: either may win.     *)
(***************************************************************************)
EXTENDS Integers, Sequences, FiniteSets, FiniteSetsExt, Randomization, TLC, Json, MapsParams, MapLookup
(* MapsParams defines Hosts (host names), Paths (declared paths) and ReqPaths (request paths), the last two as
   sets of character sequences -- TLC configuration files cannot hold tuples. *)

CONSTANTS MaxRules,
          NSample      \* random mode: number of rule sets drawn (0 = not used)

---------------------------------------------------------------------------
(* enumeration of the rule sets handed to the real HostsMaps (TLC proposes) *)

AllRules == [h : Hosts, p : Paths, ty : Types]

VARIABLE rs
Init == rs \in UNION {kSubset(k, AllRules) : k \in 1..MaxRules}
Next == UNCHANGED rs
Spec == Init /\ [][Next]_rs

(* random mode: a sample of larger rule sets (about MaxRules rules each) over a deeper path alphabet *)
InitRandom == rs \in RandomSetOfSubsets(NSample, MaxRules, AllRules)
SpecRandom == InitRandom /\ [][Next]_rs

Emit == PrintT(<<"BEHAVIOUR", ToJson(rs)>>)
=============================================================================
