-------------------------------- MODULE Maps --------------------------------
(***************************************************************************)
(* Path precedence in the generated maps (property C04).                   *)
(*                                                                         *)
(* Strings that must be inspected are sequences of one-character strings.  *)
(* HAProxy's lookup semantics (trusted, from its configuration manual and  *)
(* pattern.c): map_str = exact match of the whole key; map_beg = the       *)
(* longest pattern that is a prefix of the key; map_dir = the first        *)
(* pattern, in file order, whose delimiter-trimmed text equals a portion   *)
(* of the key that starts at the beginning or after a delimiter and ends   *)
(* at the end or before a delimiter (delimiters: / and ?).  The frontend   *)
(* tries the match files in their emitted order and the first hit wins;    *)
(* `lower` files are looked up with the lower-cased key.                   *)
(*                                                                         *)
(* The oracle is the documented rule: an exact rule equal to the path      *)
(* wins, otherwise the matching rule with the longest declared path;       *)
(* prefix matches whole path elements, begin is a case-insensitive string  *)
(* prefix; one path declared with two non-exact types: either may win.     *)
(***************************************************************************)
EXTENDS Integers, Sequences, FiniteSets, FiniteSetsExt, TLC, Json, MapsParams
(* MapsParams defines Hosts (host names), Paths (declared paths) and ReqPaths (request paths), the last two as
   sets of character sequences -- TLC configuration files cannot hold tuples. *)

CONSTANTS MaxRules

Types == {"exact", "prefix", "begin"}
Delims == {"/", "?"}

IsPrefixSeq(p, s) == Len(p) <= Len(s) /\ SubSeq(s, 1, Len(p)) = p

LowerChar(c) == IF c = "A" THEN "a" ELSE IF c = "B" THEN "b" ELSE IF c = "H" THEN "h" ELSE c
Lower(s) == [i \in 1..Len(s) |-> LowerChar(s[i])]

RECURSIVE TrimLeft(_)
TrimLeft(s) == IF s # <<>> /\ Head(s) \in Delims THEN TrimLeft(Tail(s)) ELSE s
RECURSIVE TrimRight(_)
TrimRight(s) == IF s # <<>> /\ s[Len(s)] \in Delims THEN TrimRight(SubSeq(s, 1, Len(s) - 1)) ELSE s
Trim(s) == TrimRight(TrimLeft(s))

(* HAProxy -m dir *)
DirMatch(pat, s) ==
    LET p == Trim(pat) IN
    /\ p # <<>>
    /\ \E i \in 1..(Len(s) - Len(p) + 1) :
          /\ SubSeq(s, i, i + Len(p) - 1) = p
          /\ (i = 1 \/ s[i - 1] \in Delims)
          /\ (i + Len(p) - 1 = Len(s) \/ s[i + Len(p)] \in Delims)

None == "none"

(* one match file: [method, lower, entries], entries = sequence of [k, v] *)
LookupFile(f, key0) ==
    LET key == IF f.lower THEN Lower(key0) ELSE key0
        n   == Len(f.entries)
    IN
    CASE f.method = "str" ->
            LET hit == {i \in 1..n : f.entries[i].k = key} IN
            IF hit = {} THEN None ELSE f.entries[CHOOSE i \in hit : \A j \in hit : i <= j].v
      [] f.method = "beg" ->
            LET hit == {i \in 1..n : IsPrefixSeq(f.entries[i].k, key)} IN
            IF hit = {} THEN None
            ELSE f.entries[CHOOSE i \in hit : \A j \in hit : Len(f.entries[i].k) > Len(f.entries[j].k)
                                                              \/ (Len(f.entries[i].k) = Len(f.entries[j].k) /\ i <= j)].v
      [] f.method = "dir" ->
            LET hit == {i \in 1..n : DirMatch(f.entries[i].k, key)} IN
            IF hit = {} THEN None ELSE f.entries[CHOOSE i \in hit : \A j \in hit : i <= j].v
      [] OTHER -> None

RECURSIVE LookupFiles(_, _)
LookupFiles(files, key) ==
    IF files = <<>> THEN None
    ELSE LET v == LookupFile(Head(files), key) IN IF v # None THEN v ELSE LookupFiles(Tail(files), key)

---------------------------------------------------------------------------
(* the oracle *)

NormPrefix(p) == IF Len(p) > 1 /\ p[Len(p)] = "/" THEN SubSeq(p, 1, Len(p) - 1) ELSE p

ElemPrefix(p, s) ==
    LET q == NormPrefix(p) IN
    IF q = <<"/">> THEN IsPrefixSeq(q, s)
    ELSE s = q \/ IsPrefixSeq(q \o <<"/">>, s)

Matches(r, h, path) ==
    /\ r.h = h
    /\ CASE r.ty = "exact"  -> r.p = path
         [] r.ty = "prefix" -> ElemPrefix(r.p, path)
         [] r.ty = "begin"  -> IsPrefixSeq(Lower(r.p), Lower(path))

DeclLen(r) == Len(r.p)     \* the declared text: "/a/" is longer than "/a" although both prefix rules match the same requests

(* the rules that may legitimately win *)
Longest(rules, h, path) ==
    LET ex == {r \in rules : r.ty = "exact" /\ Matches(r, h, path)}
        ne == {r \in rules : r.ty # "exact" /\ Matches(r, h, path)}
    IN IF ex # {} THEN ex
       ELSE {r \in ne : \A o \in ne : DeclLen(r) >= DeclLen(o)}

RuleId(r) == r.id

PathPrecedence(rules, files, h, path, key) ==
    LET got == LookupFiles(files, key)
        ok  == Longest(rules, h, path)
    IN IF ok = {} THEN got = None ELSE got \in {RuleId(r) : r \in ok}

NoCrossHost(rules, files, h, key) ==
    LET got == LookupFiles(files, key) IN
    got = None \/ \E r \in rules : RuleId(r) = got /\ r.h = h

---------------------------------------------------------------------------
(* enumeration of the rule sets handed to the real HostsMaps (TLC proposes) *)

AllRules == [h : Hosts, p : Paths, ty : Types]

VARIABLE rs
Init == rs \in UNION {kSubset(k, AllRules) : k \in 1..MaxRules}
Next == UNCHANGED rs
Spec == Init /\ [][Next]_rs

Emit == PrintT(<<"BEHAVIOUR", ToJson(rs)>>)
=============================================================================
