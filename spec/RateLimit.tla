----------------------------- MODULE RateLimit -----------------------------
(***************************************************************************)
(* Rate limiting of reloads and reconciliations (property C13).            *)
(*                                                                         *)
(* Layer B (how the code does it): the two When() bodies of                *)
(* pkg/utils/workqueue/ratelimiters.go transcribed, on top of the          *)
(* client-go rate-limiting queue (AddRateLimited = AddAfter(When()),       *)
(* the waiting heap keeps the earliest deadline per item, Add de-dups a    *)
(* dirty item, an item re-added while it is processed is re-queued on      *)
(* Done).  Time is discrete; the real-time replay maps one unit to         *)
(* VERIF_TICK_MS milliseconds.                                             *)
(*                                                                         *)
(* Layer A (what users rely on): MinSpacing, Coalesced, BoundedDelay are   *)
(* functions of the history of Arrive/Run events only.  The very same      *)
(* operators judge histories recorded from the real queues                 *)
(* (TraceRateLimitA.tla), there with Eps > 0 and times in milliseconds.    *)
(***************************************************************************)
EXTENDS Integers, Sequences, FiniteSets, TLC, Json

CONSTANTS
    Kinds,        \* items sharing queue and limiter: {"p","f"} controller, {"r"} reload queue
    Limiter,      \* "reload" | "controller"
    Interval,     \* --reload-interval, or 1/--rate-limit-update
    Wait,         \* --wait-before-update (controller limiter only; 0 for reload)
    Horizon,      \* arrivals happen at now < Horizon
    TailLen,         \* time explored after the horizon (>= Interval + Wait so that every run happens)
    MaxArrivals,
    Eps,          \* tolerance of the layer A properties: 0 at design level, jitter allowance on real traces
    ReloadFixed,  \* TRUE: reload limiter as repaired (fix: commit); FALSE: as found in the pinned tree (finding F1)
    Guard,        \* generation mode: arrivals keep this distance from run instants and frame borders (0 = none)
    Proc          \* set of possible processing durations of a run, e.g. {0} or {0,2}

NoDeadline == -1

(* With one worker and two kinds, a run of one kind can be held back by the processing time of the
   other; the limiter works on scheduled instants, so spacing and delay are promised up to that
   processing time (the property's quantifier does not range over processing times). *)
ProcMax == CHOOSE d \in Proc : \A e \in Proc : e <= d
Slack   == IF Cardinality(Kinds) > 1 THEN ProcMax ELSE 0

INSTANCE RateLimitProps


VARIABLES now,      \* current time
          last,     \* limiter.last
          waiting,  \* kind -> deadline in the delaying queue's heap, or NoDeadline
          queued,   \* kind -> item is in the FIFO (dirty, not processing)
          busy,     \* kind -> time until which the worker processes this item, or NoDeadline
          redo,     \* kind -> item was added while processing (dirty), re-queued on Done
          hist      \* history of Arrive / Run events: the only thing layer A looks at

vars == <<now, last, waiting, queued, busy, redo, hist>>

Min(a, b) == IF a < b THEN a ELSE b
Max(a, b) == IF a > b THEN a ELSE b
Abs(a)    == IF a < 0 THEN 0 - a ELSE a

---------------------------------------------------------------------------
(* Layer B: the limiters. Each returns <<new last, delay>>.                *)

ReloadWhenAsFound(l, t) ==
    LET next == l + Interval IN
    IF next < t THEN <<t, 0>>            \* not rate limited, reload now
                ELSE <<l, next - t>>     \* rate limited: `last` is left alone (F1)

ReloadWhenFixed(l, t) ==
    IF l > t THEN <<l, l - t>>           \* a reload is already scheduled: join it
    ELSE LET next == l + Interval IN
         IF next < t THEN <<t, 0>>
                     ELSE <<next, next - t>>  \* the scheduled reload starts the next frame

ControllerWhen(l, t) ==
    IF l > t THEN <<l, l - t>>           \* within a time frame, return the remaining time
    ELSE LET next == l + Interval IN
         IF next < t THEN <<t + Wait, Wait>>   \* rate allowed: the short wait
                     ELSE <<next, next - t>>   \* rate not allowed: wait for the frame to end

When(l, t) ==
    IF Limiter = "reload"
    THEN (IF ReloadFixed THEN ReloadWhenFixed(l, t) ELSE ReloadWhenAsFound(l, t))
    ELSE ControllerWhen(l, t)

NumArrivals == Cardinality({i \in 1..Len(hist) : hist[i].ev = "Arrive"})

LastArrival == LET s == {i \in 1..Len(hist) : hist[i].ev = "Arrive"} IN
               IF s = {} THEN Never ELSE hist[CHOOSE i \in s : \A j \in s : j <= i].t

(* generation mode: keep instants that the real-time replay must order well apart *)
WellSeparated ==
    Guard = 0 \/
      /\ now - LastArrival >= Guard
      /\ \A k \in Kinds : waiting[k] # NoDeadline => Abs(waiting[k] - now) >= Guard
      /\ \A k \in Kinds : busy[k] # NoDeadline => Abs(busy[k] - now) >= Guard
      /\ Abs(last - now) >= Guard
      /\ Abs(last + Interval - now) >= Guard
      /\ \A i \in 1..Len(hist) : hist[i].ev = "Run" => Abs(hist[i].t - now) >= Guard

WorkerFree == \A k \in Kinds : busy[k] = NoDeadline     \* one worker (Workers: 1, MaxConcurrentReconciles: 1)

Due == \E k \in Kinds :
          \/ queued[k] /\ WorkerFree
          \/ waiting[k] # NoDeadline /\ waiting[k] <= now
          \/ busy[k] # NoDeadline /\ busy[k] <= now

(* queue.AddRateLimited(item) *)
Arrive(k) ==
    /\ now < Horizon
    /\ NumArrivals < MaxArrivals
    /\ ~Due                     \* at one instant the queue's own steps come first; "just before" is one unit earlier
    /\ WellSeparated
    /\ LET r == When(last, now) IN
         /\ last' = r[1]
         /\ IF r[2] <= 0
            THEN \* delaying queue: non-positive delay is a plain Add
                 /\ IF busy[k] # NoDeadline
                    THEN redo' = [redo EXCEPT ![k] = TRUE] /\ UNCHANGED queued
                    ELSE queued' = [queued EXCEPT ![k] = TRUE] /\ UNCHANGED redo
                 /\ UNCHANGED waiting
            ELSE \* waiting heap keeps the earliest deadline of an item
                 /\ waiting' = [waiting EXCEPT ![k] = IF @ = NoDeadline THEN now + r[2] ELSE Min(@, now + r[2])]
                 /\ UNCHANGED <<queued, redo>>
    /\ hist' = Append(hist, [ev |-> "Arrive", t |-> now, k |-> k])
    /\ UNCHANGED <<now, busy>>

(* the waiting loop hands a due item to Add *)
Ready(k) ==
    /\ waiting[k] # NoDeadline /\ waiting[k] <= now
    /\ waiting' = [waiting EXCEPT ![k] = NoDeadline]
    /\ IF busy[k] # NoDeadline
       THEN redo' = [redo EXCEPT ![k] = TRUE] /\ UNCHANGED queued
       ELSE queued' = [queued EXCEPT ![k] = TRUE] /\ UNCHANGED redo
    /\ UNCHANGED <<now, last, busy, hist>>

(* a worker Gets the item and runs the callback (reload / reconcile) *)
Fire(k, d) ==
    /\ queued[k] /\ WorkerFree
    /\ queued' = [queued EXCEPT ![k] = FALSE]
    /\ hist' = Append(hist, [ev |-> "Run", t |-> now, k |-> k, p |-> d])
    /\ IF d = 0 THEN UNCHANGED busy ELSE busy' = [busy EXCEPT ![k] = now + d]
    /\ UNCHANGED <<now, last, waiting, redo>>

(* the callback returns: Done(item) re-queues a dirty item *)
Done(k) ==
    /\ busy[k] # NoDeadline /\ busy[k] <= now
    /\ busy' = [busy EXCEPT ![k] = NoDeadline]
    /\ queued' = [queued EXCEPT ![k] = redo[k]]
    /\ redo' = [redo EXCEPT ![k] = FALSE]
    /\ UNCHANGED <<now, last, waiting, hist>>

Tick ==
    /\ ~Due
    /\ now < Horizon + TailLen
    /\ now' = now + 1
    /\ UNCHANGED <<last, waiting, queued, busy, redo, hist>>

Init ==
    /\ now = 0
    /\ last = Never
    /\ waiting = [k \in Kinds |-> NoDeadline]
    /\ queued = [k \in Kinds |-> FALSE]
    /\ busy = [k \in Kinds |-> NoDeadline]
    /\ redo = [k \in Kinds |-> FALSE]
    /\ hist = <<>>

Next ==
    \/ \E k \in Kinds : Arrive(k) \/ Ready(k) \/ Done(k) \/ \E d \in Proc : Fire(k, d)
    \/ Tick

Spec == Init /\ [][Next]_vars

InvMinSpacing   == MinSpacing(hist)
InvCoalesced    == Coalesced(hist)
InvBoundedDelay == BoundedDelay(hist, now)

(* an item re-added while it is processed is run again after Done (not part of C13's
   statement, but the queue contract the reload retry path depends on) *)
InvNothingLost ==
    (now = Horizon + TailLen /\ ~Due) =>
        \A i \in 1..Len(hist) : IsArrive(hist[i]) =>
            \E j \in (i+1)..Len(hist) : IsRun(hist[j]) /\ hist[j].k = hist[i].k

TypeOK ==
    /\ now \in 0..(Horizon + TailLen)
    /\ \A k \in Kinds : waiting[k] \in {NoDeadline} \cup 0..(Horizon + TailLen + Interval + Wait)

(* behaviours for the real-time replay: one line per complete history *)
EmitBehaviour ==
    (now = Horizon + TailLen /\ ~Due /\ Len(hist) > 0) => PrintT(<<"BEHAVIOUR", ToJson(hist)>>)

=============================================================================
