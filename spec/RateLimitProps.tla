--------------------------- MODULE RateLimitProps ---------------------------
(***************************************************************************)
(* Layer A of property C13: what a user relies on, stated over a history   *)
(* of Arrive / Run events [ev, t, k] only.  Instantiated by RateLimit.tla  *)
(* (design level, Eps = 0, abstract time units) and by TraceRateLimit.tla  *)
(* (histories recorded from the real queues, milliseconds, Eps > 0).       *)
(***************************************************************************)
EXTENDS Integers, Sequences, FiniteSets

CONSTANTS Interval, Wait, Eps, Slack

Never == -1000000
LOCAL Max(a, b) == IF a > b THEN a ELSE b

---------------------------------------------------------------------------
(* Layer A: properties of a history h, judged at time T.                   *)

IsRun(e)    == e.ev = "Run"
IsArrive(e) == e.ev = "Arrive"

(* two runs of the same kind are never closer than the interval *)
MinSpacing(h) ==
    \A i, j \in 1..Len(h) :
        (i < j /\ IsRun(h[i]) /\ IsRun(h[j]) /\ h[i].k = h[j].k) => h[j].t - h[i].t >= Interval - Eps - Slack

(* every run answers at least one notification that came after the previous run of its kind:
   notifications that arrive while one is pending add no run *)
Coalesced(h) ==
    \A j \in 1..Len(h) : IsRun(h[j]) =>
        \E i \in 1..(j-1) :
            /\ IsArrive(h[i]) /\ h[i].k = h[j].k
            /\ \A m \in (i+1)..(j-1) : ~(IsRun(h[m]) /\ h[m].k = h[j].k)

LastRunBefore(h, i) ==
    LET s == {m \in 1..(i-1) : IsRun(h[m])} IN
    IF s = {} THEN Never ELSE h[CHOOSE m \in s : \A n \in s : n <= m].t

Deadline(h, i) == Max(h[i].t + Wait, LastRunBefore(h, i) + Interval) + Slack

(* every notification is followed by a run of its kind no later than the remaining interval
   (or the short wait) after it; T is the current time *)
BoundedDelay(h, T) ==
    \A i \in 1..Len(h) : IsArrive(h[i]) =>
        LET dl == Deadline(h, i) IN
        \/ T <= dl + Eps
        \/ \E j \in (i+1)..Len(h) : IsRun(h[j]) /\ h[j].k = h[i].k /\ h[j].t <= dl + Eps

=============================================================================
