------------------------------ MODULE Routing ------------------------------
(***************************************************************************)
(* Request-level semantics of the generated frontends (properties C03, C18 *)
(* and the routing part of C15).                                           *)
(*                                                                         *)
(* Route(front, backends, req) interprets the ordered rules of a frontend  *)
(* as HAProxy does (trusted, from the configuration manual): rules run in  *)
(* order; `set-var(x) <key>,map_<m>(file) if !{ var(x) -m found }` assigns *)
(* x when the lookup hits; the first `use_backend` whose condition holds   *)
(* and whose (possibly dynamic) name is an existing backend ends the       *)
(* evaluation; a dynamic name that resolves to nothing falls through;      *)
(* `default_backend` is used last.  `-m found` on an unset variable is     *)
(* false.                                                                  *)
(*                                                                         *)
(* Expected(...) is the documented rule: host first, then path (exact wins,*)
(* else longest declared path), first-created Ingress wins a duplicated    *)
(* path, HTTPS only for hosts with TLS, otherwise default host, default    *)
(* backend, 404.                                                           *)
(***************************************************************************)
EXTENDS Controller, MapLookup

DefaultHostChars == <<"<", "d", "e", "f", "a", "u", "l", "t", ">">>

(* req = [scheme, host (characters, as sent), path (characters)] *)
KeyOf(kind, req) ==
    CASE kind = "base"    -> Lower(req.host) \o <<"#">> \o req.path
      [] kind = "defbase" -> DefaultHostChars \o <<"#">> \o req.path
      [] kind = "host"    -> Lower(req.host)
      [] OTHER            -> <<>>

Get(env, v) == IF v \in DOMAIN env THEN env[v] ELSE NoHit
Set(env, v, x) == [y \in (DOMAIN env) \cup {v} |-> IF y = v THEN x ELSE env[y]]

SeqOfT(t) == [i \in 1..Len(t) |-> t[i]]
FileOf(s) == [method |-> s.method, lower |-> s.lower,
              entries |-> [j \in 1..Len(s.entries) |->
                            [k |-> SeqOfT(s.entries[j].k), v |-> s.entries[j].v,
                             w |-> SeqOfT(s.entries[j].w), re |-> s.entries[j].re, p |-> SeqOfT(s.entries[j].p)]]]

RECURSIVE RouteSteps(_, _, _, _, _)
RouteSteps(steps, i, env, backends, req) ==
    IF i > Len(steps) THEN NoHit
    ELSE LET s == steps[i] IN
         CASE s.kind = "setvar" ->
                 IF (\E k \in 1..Len(s.guards) : Get(env, s.guards[k]) # NoHit) \/ s.hashdr \/ s.cond # "" \/ s.key \notin {"base", "defbase", "host"}
                 THEN RouteSteps(steps, i + 1, env, backends, req)
                 ELSE LET v == LookupFile(FileOf(s), KeyOf(s.key, req)) IN
                      RouteSteps(steps, i + 1, IF v # NoHit THEN Set(env, s.var, v) ELSE env, backends, req)
           [] s.kind = "use" /\ s.var # "" ->
                 IF s.cond = "" /\ (s.found = "" \/ Get(env, s.found) # NoHit) /\ Get(env, s.var) \in backends
                 THEN Get(env, s.var)
                 ELSE RouteSteps(steps, i + 1, env, backends, req)
           [] s.kind = "use" /\ s.var = "" ->
                 IF s.cond = "" THEN s.target ELSE RouteSteps(steps, i + 1, env, backends, req)
           [] s.kind = "default" -> s.target
           [] OTHER -> RouteSteps(steps, i + 1, env, backends, req)

Route(front, backends, req) == RouteSteps(front.steps, 1, << >>, backends, req)

---------------------------------------------------------------------------
(* the documented routing of a cluster state *)

RuleRecs(g, h) ==
    {[id |-> r.s, h |-> r.h, p |-> PathChars(r.p), ty |-> r.ty] : r \in {x \in Routes(g) : x.h = h}}

(* set of acceptable backends for a request: a service name, "_default" (--default-backend-service) or "_error404" *)
(* wildStr: the wildcard hostname that covers the request's host ("*.h1.local" for a.h1.local; "" when there is none).  The
   documentation of strict-host: with the default (false) "all matching wildcard hosts will be visited in order to try to match
   the path" when the host itself has no path for the request. *)
Expected(g, defaultsvc, req, hostStr, wildStr) ==
    LET eligible == req.scheme = "http" \/ hostStr \in TLSHosts(g)
        own  == IF eligible THEN Longest(RuleRecs(g, hostStr), hostStr, req.path) ELSE {}
        weligible == wildStr # "" /\ (req.scheme = "http" \/ wildStr \in TLSHosts(g))
        wild == IF weligible THEN Longest(RuleRecs(g, wildStr), wildStr, req.path) ELSE {}
        dflt == Longest(RuleRecs(g, "<default>"), "<default>", req.path)
    IN IF own # {} THEN {r.id : r \in own}
       ELSE IF wild # {} THEN {r.id : r \in wild}
       ELSE IF dflt # {} THEN {r.id : r \in dflt}
       ELSE IF defaultsvc # "" THEN {"_default"} ELSE {"_error404"}
---------------------------------------------------------------------------
(* certificate selection of the HTTPS bind (C15).  crt-list semantics (trusted, HAProxy manual): the first
   line is the default certificate; an entry applies to an SNI that equals one of its filters, otherwise to an
   SNI whose first label replaced by "*" equals a filter; otherwise the default certificate is served. *)

WildOf(name) ==
    LET dots == {i \in 1..Len(name) : name[i] = "."} IN
    IF dots = {} THEN <<>> ELSE <<"*">> \o SubSeq(name, CHOOSE i \in dots : \A j \in dots : i <= j, Len(name))

(* crtlist: sequence of [c, cur, dflt, filters (sequence of character sequences)] in file order *)
SNI(crtlist, name0) ==
    LET name == Lower(name0)
        n == Len(crtlist)
        hasF(i, f) == \E k \in 1..Len(crtlist[i].filters) : SeqOfT(crtlist[i].filters[k]) = f
        exact == {i \in 1..n : ~crtlist[i].dflt /\ hasF(i, name)}
        wild  == {i \in 1..n : ~crtlist[i].dflt /\ WildOf(name) # <<>> /\ hasF(i, WildOf(name))}
    IN IF exact # {} THEN crtlist[CHOOSE i \in exact : \A j \in exact : i <= j]
       ELSE IF wild # {} THEN crtlist[CHOOSE i \in wild : \A j \in wild : i <= j]
       ELSE [c |-> "default", cur |-> TRUE, dflt |-> TRUE, filters |-> <<>>]

(* the certificate the documentation promises for an SNI name: secret of the first-created Ingress declaring tls for
   that host (or for its wildcard), when that secret exists and is well formed; the default certificate otherwise *)
ExpectedCert(g, sc, sni) ==
    LET h == IF sni.name \in TLSHosts(g) THEN sni.name ELSE IF sni.wild # "" /\ sni.wild \in TLSHosts(g) THEN sni.wild ELSE "" IN
    IF h = "" THEN "default"
    ELSE LET c == TmplSecret(g[TLSOwner(g, h)], h) IN IF sc[c] \in ValidSec THEN c ELSE "default"
=============================================================================
