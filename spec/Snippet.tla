------------------------------ MODULE Snippet ------------------------------
(***************************************************************************)
(* Disabled snippet keywords (property C19).  A config-backend snippet of  *)
(* an Ingress or Service annotation is dropped as a whole when one of its  *)
(* lines has a disabled keyword as first token (blanks and tabs before it  *)
(* are ignored), and always when "*" is disabled; otherwise its lines      *)
(* appear verbatim in the backend.  Texts are sequences of characters.     *)
(***************************************************************************)
EXTENDS Integers, Sequences, FiniteSets, TLC, Json

CONSTANTS MaxLen

Alphabet == {" ", "\t", "\n", "a", "b", "A"}   \* characters of the snippet texts

Blank == {" ", "\t", "\r"}
NL == "\n"

RECURSIVE SplitNL(_)
SplitNL(s) ==
    IF \A i \in 1..Len(s) : s[i] # NL THEN <<s>>
    ELSE LET k == CHOOSE i \in 1..Len(s) : s[i] = NL /\ \A j \in 1..(i-1) : s[j] # NL
         IN <<SubSeq(s, 1, k - 1)>> \o SplitNL(SubSeq(s, k + 1, Len(s)))

RECURSIVE TrimRightNL(_)
TrimRightNL(s) == IF s # <<>> /\ s[Len(s)] = NL THEN TrimRightNL(SubSeq(s, 1, Len(s) - 1)) ELSE s

(* the lines of an annotation value *)
Lines(s) == IF s = <<>> THEN <<>> ELSE SplitNL(TrimRightNL(s))

RECURSIVE SkipBlank(_)
SkipBlank(l) == IF l # <<>> /\ Head(l) \in Blank THEN SkipBlank(Tail(l)) ELSE l
RECURSIVE TakeWord(_)
TakeWord(l) == IF l = <<>> \/ Head(l) \in Blank THEN <<>> ELSE <<Head(l)>> \o TakeWord(Tail(l))

FirstToken(l) == TakeWord(SkipBlank(l))

(* HAProxy removes quotes and escapes from every word of a line, the keyword included (configuration manual, "Quoting and
   escaping"): "a" b, 'a' b and \a b are the keyword a.  Unquote is exact for the texts used here (no escaped blank, no \xNN). *)
QuoteChars == {"\"", "'", "\\"}
Unquote(t) == SelectSeq(t, LAMBDA c : c \notin QuoteChars)
Quoted(t) == \E i \in 1..Len(t) : t[i] \in QuoteChars

(* kws: set of keywords (character sequences); the empty keyword is ignored *)
Dropped(s, kws) ==
    /\ Lines(s) # <<>>
    /\ \/ <<"*">> \in kws
       \/ \E i \in 1..Len(Lines(s)) : Unquote(FirstToken(Lines(s)[i])) \in (kws \ {<<>>})
(* a controller that does not unquote may refuse what it cannot decide: a quoted first word while some keyword is disabled *)
MayDrop(s, kws) ==
    /\ Lines(s) # <<>> /\ (kws \ {<<>>}) # {}
    /\ \E i \in 1..Len(Lines(s)) : Quoted(FirstToken(Lines(s)[i]))

(* --disable-config-keywords is a comma separated list: blanks around an item do not belong to it, empty items are ignored *)
RECURSIVE SplitComma(_)
SplitComma(s) ==
    IF \A i \in 1..Len(s) : s[i] # "," THEN <<s>>
    ELSE LET k == CHOOSE i \in 1..Len(s) : s[i] = "," /\ \A j \in 1..(i-1) : s[j] # ","
         IN <<SubSeq(s, 1, k - 1)>> \o SplitComma(SubSeq(s, k + 1, Len(s)))
RECURSIVE TrimBlankRight(_)
TrimBlankRight(s) == IF s # <<>> /\ s[Len(s)] \in Blank THEN TrimBlankRight(SubSeq(s, 1, Len(s) - 1)) ELSE s
TrimBlank(s) == TrimBlankRight(SkipBlank(s))
ParseOption(s) == {TrimBlank(SplitComma(s)[i]) : i \in 1..Len(SplitComma(s))} \ {<<>>}

IsBlankLine(l) == \A i \in 1..Len(l) : l[i] \in Blank

(* what must be found in the backend: nothing, or the non-blank lines verbatim *)
StripCR(l) == IF l # <<>> /\ l[Len(l)] = "\r" THEN SubSeq(l, 1, Len(l) - 1) ELSE l
(* (a reader of the written file that knows CRLF line ends, HAProxy included, does not see a carriage return that ends a line) *)
Expected(s, kws) ==
    IF Dropped(s, kws) THEN <<>>
    ELSE LET ls == SelectSeq(Lines(s), LAMBDA l : ~IsBlankLine(l)) IN [i \in 1..Len(ls) |-> StripCR(ls[i])]

---------------------------------------------------------------------------
VARIABLE txt
RECURSIVE Texts(_)
Texts(n) == IF n = 0 THEN {<<>>} ELSE Texts(n - 1) \cup {Append(t, c) : t \in {x \in Texts(n - 1) : Len(x) = n - 1}, c \in Alphabet}
Init == txt \in Texts(MaxLen)
Next == UNCHANGED txt
Spec == Init /\ [][Next]_txt
(* mixed line ends: two or three short lines joined by LF or CRLF in every combination (a value edited on two systems) *)
ShortLines == {<<"a">>, <<"b">>, <<" ", "a">>, <<"A">>}
Seps == {<<"\n">>, <<"\r", "\n">>}
MixedTexts == {l1 \o s1 \o l2 : l1 \in ShortLines, l2 \in ShortLines, s1 \in Seps}
              \cup {l1 \o s1 \o l2 \o s2 \o l3 : l1 \in ShortLines, l2 \in ShortLines, l3 \in ShortLines, s1 \in Seps, s2 \in Seps}
(* comment lines: a snippet made of comments (and blank lines) only, and comments next to directives.  A comment is a line
   like any other: it is not a keyword, and with "*" it goes away with the rest *)
CommentLines == {<<"#", "a">>, <<" ", "#", "A">>, <<"#", "b", " ", "a">>}
CommentTexts == CommentLines
                \cup {l1 \o <<"\n">> \o l2 : l1 \in CommentLines, l2 \in CommentLines \cup ShortLines \cup {<<>>, <<" ">>}}
                \cup {l1 \o <<"\n">> \o l2 : l1 \in ShortLines, l2 \in CommentLines}
InitComments == txt \in CommentTexts
SpecComments == InitComments /\ [][Next]_txt
(* quoted and escaped first words *)
QuoteLines == {<<"\"", "a", "\"">>, <<"\"", "a", "\"", " ", "b">>, <<"'", "a", "'", " ", "b">>, <<"\\", "a", " ", "b">>, <<" ", "\"", "A", "\"">>,
               <<"b", " ", "\"", "a", "\"">>, <<"a", "\"", "\"">>}
QuoteTexts == QuoteLines \cup {l1 \o <<"\n">> \o l2 : l1 \in ShortLines, l2 \in QuoteLines}
InitQuotes == txt \in QuoteTexts
SpecQuotes == InitQuotes /\ [][Next]_txt
InitMixed == txt \in MixedTexts
SpecMixed == InitMixed /\ [][Next]_txt

Emit == PrintT(<<"BEHAVIOUR", ToJson(txt)>>)
=============================================================================
