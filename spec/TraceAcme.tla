------------------------------ MODULE TraceAcme ------------------------------
(* Judges what the real signer did for the rows of Acme.tla part A and what the real pipeline handed to the acme
   queue for the histories of part B (harness/cmd/acmex). *)
EXTENDS Acme

Trace == ndJsonDeserialize("trace.ndjson")
VARIABLES l, bad, known

SetOf(t) == {t[i] : i \in 1..Len(t)}
ItemOf(x) == [sec |-> x.sec, doms |-> SetOf(x.doms)]
ItemsOf(t) == {ItemOf(t[i]) : i \in 1..Len(t)}
IngOf(t) == [i \in Slots |-> t[i]]

TraceNext ==
    /\ l <= Len(Trace) /\ l' = l + 1
    /\ LET e == Trace[l] IN
       CASE e.ev = "Row" ->
              LET b == RowBroken(e.r, e.o) IN
              /\ bad' = IF b = "none" THEN bad ELSE bad \cup {[id |-> e.id, step |-> 0, inv |-> b]}
              /\ UNCHANGED known
         [] e.ev = "Reset" -> known' = {} /\ UNCHANGED bad
         [] e.ev = "Step" ->
              \* late changes were only taken by this step when its update really failed (else they wait for the next batch)
              LET now == Items(Wanted(IngOf(IF e.failed THEN e.st.ing ELSE e.st.ing0), e.st.trackann))
                  \* the update only fails when it needed a reload: what happened is what counts
                  mid == Items(Wanted(IngOf(e.st.ing0), e.st.trackann))
                  b == IF e.failed /\ Len(e.st.late) > 0
                       THEN LateStepBroken(known, mid, now, e.st, ItemsOf(e.adds), ItemsOf(e.dels))
                       ELSE StepBroken(known, now, [e.st EXCEPT !.fail = e.failed], ItemsOf(e.adds), ItemsOf(e.dels)) IN
              /\ bad' = IF b = "none" THEN bad ELSE bad \cup {[id |-> e.id, step |-> e.step, inv |-> b]}
              \* the controller's view follows the cluster at every sync, leader or not
              /\ known' = now
    /\ UNCHANGED bvars

(* one initial state (InitB leaves trackann open: it is a field of every recorded step here) *)
TraceInit == InitB /\ trackann = FALSE /\ l = 1 /\ bad = {} /\ known = {}
TraceSpec == TraceInit /\ [][TraceNext]_<<bvars, l, bad, known>>
Result == l = Len(Trace) + 1 => PrintT(<<"RESULT", ToJson([n |-> l - 1, bad |-> bad])>>)
=============================================================================
