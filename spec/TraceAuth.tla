------------------------------ MODULE TraceAuth ------------------------------
(* Judges the configuration the real pipeline wrote for every enumerated auth case (harness/cmd/authx). *)
EXTENDS AuthFail

Trace == ndJsonDeserialize("trace.ndjson")
VARIABLES l, bad

(* the hostname of the Ingress and its server-alias: the documentation makes the alias another name of the same host *)
(* ... and its server-alias-regex ^[^.]+\.alt\.local$ (a regex of the shape MapLookup!WildHit evaluates) *)
HostNames == {<<"a", ".", "l", "o", "c", "a", "l">>, <<"b", ".", "l", "o", "c", "a", "l">>,
              <<"x", ".", "a", "l", "t", ".", "l", "o", "c", "a", "l">>}
BaseOf(hc, p) == hc \o <<"#">> \o p

FileOf(s) == [method |-> s.method, lower |-> s.lower,
              entries |-> [j \in 1..Len(s.entries) |-> [k |-> SeqT(s.entries[j].k), v |-> s.entries[j].v,
                                                       w |-> SeqT(s.entries[j].w), re |-> s.entries[j].re, p |-> SeqT(s.entries[j].p)]]]

(* txn.pathID as the backend computes it *)
RECURSIVE PathIDOf(_, _, _, _)
PathIDOf(steps, i, cur, b) ==
    IF i > Len(steps) THEN cur
    ELSE LET s == steps[i] IN
         IF (s.guard # "" /\ cur # NoHit) \/ s.hashdr \/ s.key # "base" THEN PathIDOf(steps, i + 1, cur, b)
         ELSE LET v == LookupFile(FileOf(s), b) IN PathIDOf(steps, i + 1, IF v # NoHit THEN v ELSE cur, b)

RulesOf(e) == {[id |-> e.rules[i].id, h |-> "a.local", p |-> SeqT(e.rules[i].p), ty |-> e.rules[i].ty] : i \in 1..Len(e.rules)}
Protected(e, id) == \E i \in 1..Len(e.rules) : e.rules[i].id = id /\ e.rules[i].protected

Judge(e) ==
    UNION {
        LET p == SeqT(e.reqs[k])
            b == BaseOf(hc, p)
            win == Longest(RulesOf(e), "a.local", p)
            mustGuard == win # {} /\ \A r \in win : Protected(e, r.id)
            pid == PathIDOf(e.backend.pathid, 1, NoHit, b)
            ok == Guarded(e.front, NoHit, b, p) \/ Guarded(e.backend.auth, pid, b, p)
            \* ... and the guard is a deny or a call to the service the path declares
            owner == IF win = {} THEN "none" ELSE (CHOOSE r \in win : TRUE).id
            what == DeclaredService(e.cs, owner)
            right == GuardedRight(e.front, NoHit, b, p, what) \/ GuardedRight(e.backend.auth, pid, b, p, what)
            \* (the regex maps a server-alias-regex lands in are case sensitive, in the frontend as well: /App through the regex alias
            \* is not routed to this backend at all, so it is not a request to the protected path)
            skip == hc[1] = "x" /\ \E i \in 1..Len(p) : p[i] = "A"
        IN IF skip THEN {} ELSE
           (IF mustGuard => ok THEN {}
            ELSE {[id |-> e.id, inv |-> "FailClosed", path |-> p, cs |-> e.cs, alias |-> hc[1] # "a"]})
           \cup (IF mustGuard /\ ok /\ Cardinality(win) = 1 /\ ~right
                 THEN {[id |-> e.id, inv |-> "RightService", path |-> p, cs |-> e.cs, alias |-> hc[1] # "a"]} ELSE {})
        : k \in 1..Len(e.reqs), hc \in HostNames}

TraceNext == /\ l <= Len(Trace) /\ l' = l + 1 /\ bad' = bad \cup Judge(Trace[l]) /\ UNCHANGED cs
TraceInit == cs = [url |-> "none", oauth |-> "none", placement |-> "backend", ptype |-> "exact", lua |-> TRUE, range |-> "default", open |-> "after", cors |-> FALSE, pubauth |-> FALSE, src |-> "ingress", oprefix |-> "default", elder |-> "none", twin |-> FALSE] /\ l = 1 /\ bad = {}
TraceSpec == TraceInit /\ [][TraceNext]_<<cs, l, bad>>
Result == l = Len(Trace) + 1 => PrintT(<<"RESULT", ToJson([n |-> l - 1, bad |-> bad])>>)
=============================================================================
