--------------------------- MODULE TraceBackendSet ---------------------------
(* Compares the observable state of the real container of backends after every call (harness/cmd/chgx) with BackendSet, and
   evaluates ShardsCover on the recorded state at every Shrink. The shard of each id is the one the implementation computed
   (first line of the trace). *)
EXTENDS BackendSet

Trace == ndJsonDeserialize("trace.ndjson")
ShardOfT == Trace[1].shards

VARIABLES l, bad, drift

SetOf(t) == {t[i] : i \in 1..Len(t)}
ObsItems(e) == [i \in Ids |-> e.items[i]]
ObsDel(e) == [i \in Ids |-> e.del[i]]

Step(e) ==
    CASE e.op = "acquire" -> Acquire(e.id, e.v)
      [] e.op = "remove" -> Remove(e.id)
      [] e.op = "shrink" -> Shrink
      [] e.op = "commit" -> Commit
      [] e.op = "clear" -> Clear

Reset == /\ items' = [i \in Ids |-> Absent] /\ add' = {} /\ del' = [i \in Ids |-> Absent] /\ changed' = {}
         /\ committed' = [i \in Ids |-> Absent] /\ hist' = <<>> /\ shrunk' = FALSE /\ phase' = "idle"

TraceNext ==
    /\ l <= Len(Trace) /\ l' = l + 1
    /\ LET e == Trace[l] IN
       IF e.op \in {"header", "reset"} THEN Reset /\ UNCHANGED <<bad, drift>>
       ELSE /\ Step(e) /\ phase' = phase
            \* layer A on what the implementation holds: at a Shrink every shard with a difference to the committed state is flagged
            /\ bad' = IF e.op = "shrink" /\ ~({ShardOfT[i] : i \in {j \in Ids : ObsItems(e)[j] # committed[j]}} \subseteq SetOf(e.changed))
                      THEN bad \cup {[id |-> e.seq, call |-> e.n, inv |-> "ShardsCover", changed |-> SetOf(e.changed),
                                      differ |-> {j \in Ids : ObsItems(e)[j] # committed[j]}]}
                      ELSE bad
            \* layer B: the whole observable state equals the model's
            /\ drift' = IF ObsItems(e) = items' /\ SetOf(e.add) = add' /\ ObsDel(e) = del' /\ SetOf(e.changed) = changed' THEN drift
                        ELSE drift \cup {[id |-> e.seq, call |-> e.n, op |-> e.op]}

TraceInit == Init /\ l = 1 /\ bad = {} /\ drift = {}
TraceSpec == TraceInit /\ [][TraceNext]_<<vars, l, bad, drift>>
Result == l = Len(Trace) + 1 => PrintT(<<"RESULT", ToJson([n |-> l - 1, bad |-> bad, drift |-> drift])>>)
=============================================================================
