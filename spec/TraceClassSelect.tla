-------------------------- MODULE TraceClassSelect --------------------------
(* Judges what the real cache facade, watchers and pipeline did for each enumerated row / transition
   (harness/cmd/classx). *)
EXTENDS ClassSelect

Trace == ndJsonDeserialize("trace.ndjson")
VARIABLES l, bad

Sel(r) == DocSelected(r.ann, r.cls, r.ww, r.prec)
Bad(e, inv, ok) == IF ok THEN {} ELSE {[id |-> e.id, inv |-> inv, kind |-> e.kind]}

Judge(e) ==
    \* the decision functions
    Bad(e, "IsValidIngress", (e.kind = "batch" \/ e.validfrom = Sel(e.from)) /\ e.validto = Sel(e.to)) \cup
    Bad(e, "IngressList", e.listed = Sel(e.to)) \cup
    \* a freshly started controller configures the host iff selected
    Bad(e, "FreshConfigured", e.freshconfigured = Sel(e.to)) \cup
    \* incremental: after the change the host is configured iff selected (unselected => contribution removed)
    Bad(e, "IncrementalConfigured", e.configured = Sel(e.to)) \cup
    \* the change of the Ingress object is delivered as add / update / delete (judged when the IngressClass
    \* object does not change in the same step: otherwise the order of the two events decides)
    (IF e.kind = "ingress" /\ ~e.classchanged THEN Bad(e, "Delivery", e.delivery = Delivery(Sel(e.from), Sel(e.to))) ELSE {})

TraceNext == /\ l <= Len(Trace) /\ l' = l + 1 /\ bad' = bad \cup Judge(Trace[l]) /\ UNCHANGED tr
TraceInit == tr = [from |-> [ann |-> "absent", cls |-> "absent", ww |-> FALSE, prec |-> FALSE],
                   to |-> [ann |-> "absent", cls |-> "absent", ww |-> FALSE, prec |-> FALSE]] /\ l = 1 /\ bad = {}
TraceSpec == TraceInit /\ [][TraceNext]_<<tr, l, bad>>
Result == l = Len(Trace) + 1 => PrintT(<<"RESULT", ToJson([n |-> l - 1, bad |-> bad])>>)
=============================================================================
