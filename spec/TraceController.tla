-------------------------- MODULE TraceController --------------------------
(***************************************************************************)
(* Judges the quiescent points recorded by harness/cmd/ctl while it ran    *)
(* histories on the real pipeline.                                         *)
(*                                                                         *)
(* Layer A (verdicts), on every State event e:                             *)
(*   Converged     (C01)  normal form left by the incremental controller   *)
(*                        = normal form of a freshly started controller    *)
(*   Deterministic (C06)  all fresh controllers (permuted list results and *)
(*                        event order, re-randomised map iteration) agree  *)
(*   RunningOK     (C12)  after the controller's own retry the running     *)
(*                        table equals the table loaded from disk          *)
(* Oracle (binding of Controller!FullModel to the code), for histories in  *)
(* the core vocabulary: the routing tables read from the files equal       *)
(* FullModel(cluster).  inc # oracle while fresh = oracle is a C01/C15     *)
(* violation; fresh # oracle means the specification does not describe     *)
(* the code (reported as drift, never as a violation).                     *)
(***************************************************************************)
EXTENDS Controller

HA == INSTANCE HAConfig

Trace == ndJsonDeserialize("trace.ndjson")

VARIABLES l, bad, drift

tvars == <<vars, l, bad, drift>>

ToSet(t) == {t[i] : i \in 1..Len(t)}

IngOf(c) == [i \in Slots |-> c.ing[ToString(i)]]
EpsOf(c) == [s \in Svcs |-> c.eps[s]]
SecOf(c) == [x \in Secrets |-> c.sec[x]]

ModelOf(m) ==
    [routes |-> {[h |-> r.h, p |-> r.p, ty |-> r.ty, s |-> r.s] : r \in ToSet(m.routes)},
     crts   |-> {[h |-> c.h, c |-> IF c.cur THEN c.c ELSE "stale:" \o c.c] : c \in ToSet(m.crts)},
     backs  |-> {[s |-> b.s, eps |-> ToSet(b.eps)] : b \in ToSet(m.backs)}]

Bad(e, inv, ok) == IF ok THEN {} ELSE {[tr |-> e.tr, step |-> e.step, inv |-> inv]}

Settled(e) == ~e.err

HasFacts(e) == "facts" \in DOMAIN e

JudgeA(e) ==
    Bad(e, "Converged", Settled(e) => (Len(e.fresh) = 0 \/ e.inc = e.fresh[1])) \cup
    \* C05: exactly the current model on disk -- nothing stale, nothing missing, nothing twice
    Bad(e, "DiskExact", Settled(e) => ((Len(e.freshx) = 0 \/ e.incx = e.freshx[1]) /\ Len(e.dups) = 0)) \cup
    \* ... and slot by slot what the controller itself holds in memory: the next dynamic update addresses the servers by these names
    Bad(e, "DiskIsModel", Settled(e) => Len(e.slots) = 0) \cup
    \* C07: the files of the incremental and of the fresh controller are loadable
    (IF HasFacts(e) /\ Settled(e) THEN Bad(e, "WellFormed:" \o HA!FirstBroken(e.facts), HA!WellFormed(e.facts)) ELSE {}) \cup
    (IF "ffacts" \in DOMAIN e THEN Bad(e, "WellFormedFresh:" \o HA!FirstBroken(e.ffacts), HA!WellFormed(e.ffacts)) ELSE {}) \cup
    Bad(e, "Deterministic", \A i, j \in 1..Len(e.fresh) : e.fresh[i] = e.fresh[j]) \cup
    Bad(e, "RunningOK", Settled(e) => e.runeq) \cup
    \* C12: the controller's own retry succeeds once the fault is gone
    Bad(e, "RetrySucceeds", ~e.err)

Expected(e) == FullModel(IngOf(e.cluster), EpsOf(e.cluster), SecOf(e.cluster))

JudgeOracle(e) ==
    IF ~e.core \/ ~Settled(e) THEN {}
    ELSE LET x == Expected(e) IN
         IF ModelOf(e.fmodel) # x THEN {}
         ELSE Bad(e, "ModelConverged", ModelOf(e.model) = x)

DriftOf(e) ==
    IF ~e.core \/ ~Settled(e) THEN {}
    ELSE LET x == Expected(e) IN
         IF ModelOf(e.fmodel) = x THEN {}
         ELSE {[tr |-> e.tr, step |-> e.step,
                what |-> IF ModelOf(e.fmodel).routes # x.routes THEN "routes"
                         ELSE IF ModelOf(e.fmodel).crts # x.crts THEN "crts" ELSE "backs"]}

TraceNext ==
    /\ l <= Len(Trace)
    /\ LET e == Trace[l] IN
       /\ l' = l + 1
       /\ IF e.ev = "State"
          THEN bad' = bad \cup JudgeA(e) \cup JudgeOracle(e) /\ drift' = drift \cup DriftOf(e)
          ELSE UNCHANGED <<bad, drift>>
    /\ UNCHANGED vars

TraceInit == Init /\ l = 1 /\ bad = {} /\ drift = {}

TraceSpec == TraceInit /\ [][TraceNext]_tvars

Result ==
    l = Len(Trace) + 1 =>
        PrintT(<<"RESULT", ToJson([n |-> l - 1, bad |-> bad, drift |-> drift])>>)
=============================================================================
