--------------------------- MODULE TraceDynUpdate ---------------------------
(***************************************************************************)
(* Judges update histories recorded from the real haproxy.Instance driven  *)
(* through the real pipeline against a simulated HAProxy                   *)
(* (harness/cmd/dynupd).                                                   *)
(*  Layer A (verdict, C02 + C11): evaluated on every recorded update.      *)
(*  Layer B (conformance): the model's slots, the kind of update and the   *)
(*  number of commands must be what DynUpdate!OutcomeWith predicts from    *)
(*  the previous recorded slots.  Mismatches go to `drift`.                *)
(***************************************************************************)
EXTENDS DynUpdate

Trace == ndJsonDeserialize("trace.ndjson")

VARIABLES l, tr, cfgT, prevSlots, isCommitted, skip, bad, drift

tvars == <<vars, l, tr, cfgT, prevSlots, isCommitted, skip, bad, drift>>

Bad(id, step, inv, ok) == IF ok THEN {} ELSE {[tr |-> id, step |-> step, inv |-> inv]}

(* ---- layer A on one recorded update e of a trace with configuration c ---- *)
ARunningMatchesDisk(e)   == ~e.err => (e.run = e.disk /\ e.runcrt = e.diskcrt)
AFailureImpliesReload(e) == e.faulted => e.reloads > 0
ANoNeedlessReload(e, c)  ==
    (e.step > 0 /\ e.epsonly /\ ~e.faulted /\ ~e.err /\ c.cookie # "preserve" /\ e.fits /\ ~c.static) => e.reloads = 0
ANoopIsNoop(e)           == (e.step > 0 /\ e.same /\ e.epsonly /\ ~e.faulted) => e.reloads = 0
(* dynamic-scaling=false: no empty slots are kept, every change of the endpoints reloads *)
ASlotsAfterReload(e, c)  ==
    (e.reloads > 0 /\ ~e.err /\ ~c.static) =>
        \A i \in 1..Len(e.slotinfo) :
            e.slotinfo[i].free >= e.minfree /\ e.slotinfo[i].total % BlockSzOf(e.block) = 0

JudgeA(e, c) ==
    Bad(e.tr, e.step, "RunningMatchesDisk", ARunningMatchesDisk(e)) \cup
    Bad(e.tr, e.step, "FailureImpliesReload", AFailureImpliesReload(e)) \cup
    Bad(e.tr, e.step, "NoNeedlessReload", ANoNeedlessReload(e, c)) \cup
    Bad(e.tr, e.step, "NoopIsNoop", ANoopIsNoop(e)) \cup
    Bad(e.tr, e.step, "SlotsAfterReload", ASlotsAfterReload(e, c))

(* ---- layer B ---- *)
SeqOfTuple(t) == [i \in 1..Len(t) |-> t[i]]
EpsOf(e)   == {[t |-> e.eps[i].t, w |-> e.eps[i].w] : i \in 1..Len(e.eps)}
SlotsOf(e) == [i \in 1..Len(e.slots) |-> Ep(e.slots[i].n, e.slots[i].t, e.slots[i].w, e.slots[i].en)]

Conforms(e, o) ==
    /\ (o.kind = "reload") = (e.reloads > 0)
    /\ o.faulted = e.faulted
    /\ (~e.faulted => o.ncmd = e.ncmd)
    /\ o.slots = SlotsOf(e)

TraceNext ==
    /\ l <= Len(Trace)
    /\ LET e == Trace[l] IN
       /\ l' = l + 1
       /\ IF e.ev = "Reset"
          THEN /\ tr' = e.tr /\ cfgT' = e
               /\ prevSlots' = <<>> /\ isCommitted' = FALSE
               /\ skip' = (e.naming # "" \/ e.cookie # "" \/ e.tls \/ e.auth # "" \/ e.static \/ e.passthru)
               /\ UNCHANGED <<bad, drift>>
          ELSE /\ bad' = bad \cup JudgeA(e, cfgT)
               /\ UNCHANGED <<tr, cfgT>>
               /\ IF skip \/ ~e.seqnames \/ e.other
                  THEN UNCHANGED <<prevSlots, isCommitted, skip, drift>>
                  ELSE LET o == OutcomeWith(prevSlots, EpsOf(e), isCommitted, IF e.faulted THEN e.fault ELSE -1,
                                            cfgT.minfree, cfgT.block) IN
                       IF Conforms(e, o)
                       THEN /\ prevSlots' = o.slots /\ isCommitted' = TRUE /\ UNCHANGED <<skip, drift>>
                       ELSE /\ skip' = TRUE
                            /\ drift' = drift \cup {[tr |-> e.tr, step |-> e.step, predicted |-> o.kind]}
                            /\ UNCHANGED <<prevSlots, isCommitted>>
    /\ UNCHANGED vars

TraceInit ==
    /\ Init
    /\ l = 1 /\ tr = "" /\ cfgT = [minfree |-> 0, block |-> 1, cookie |-> "", naming |-> "", tls |-> FALSE, auth |-> "", static |-> FALSE, passthru |-> FALSE]
    /\ prevSlots = <<>> /\ isCommitted = FALSE /\ skip = FALSE /\ bad = {} /\ drift = {}

TraceSpec == TraceInit /\ [][TraceNext]_tvars

Result ==
    l = Len(Trace) + 1 =>
        PrintT(<<"RESULT", ToJson([n |-> l - 1, bad |-> bad, drift |-> drift])>>)
=============================================================================
