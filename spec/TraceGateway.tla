---------------------------- MODULE TraceGateway ----------------------------
(* Judges the configurations the real pipeline wrote for the worlds of spec/GatewayAdmission.tla
   (harness/cmd/gwx): one line per world with the host/path rules, TCP ports and server weights observed. *)
EXTENDS GatewayAdmission

WT == INSTANCE Weights WITH WeightVals <- {}, ReplVals <- {}, InitVals <- {}, N <- 0, inp <- 0

Trace == ndJsonDeserialize("trace.ndjson")
VARIABLES l, bad, stat

SetOf(t) == {t[i] : i \in 1..Len(t)}

ObsOf(e) == [routes |-> SetOf(e.obs.routes), tcp |-> SetOf(e.obs.tcp), backs |-> SetOf(e.obs.backs)]

SlotOfBackend(x, name) ==
    LET c == {k \in RouteSlots : x.rt[k].kind # "none" /\ name \in {HTTPBackend(x, k), TCPBackend(x, k)}} IN
    IF c = {} THEN 0 ELSE CHOOSE k \in c : TRUE

(* the servers of a route backend are the replicas of its backendRefs, weighted as the Weights contract says;
   a backendRef without weight counts 1; the converter rebalances with 128 as the initial (minimum) weight *)
BackendBroken(x, b) ==
    LET k == SlotOfBackend(x, b.s) IN
    IF k = 0 THEN "UnknownBackend"
    ELSE LET refs == x.rt[k].backs
             n == Len(refs) IN
         IF Len(b.grp) # n \/ b.xtr # 0 THEN "Servers"
         ELSE IF \E j \in 1..n : Len(b.grp[j]) # ReplOf(refs[j].s) \/ \E a \in 1..Len(b.grp[j]) : b.grp[j][a] < 0 \/ b.grp[j][a] # b.grp[j][1] THEN "Servers"
         ELSE LET in == [w |-> [j \in 1..n |-> IF refs[j].w < 0 THEN 1 ELSE refs[j].w], l |-> [j \in 1..n |-> ReplOf(refs[j].s)], iw |-> 128]
                  out == [j \in 1..n |-> IF ReplOf(refs[j].s) = 0 THEN 0 ELSE b.grp[j][1]] IN
              WT!Broken(in, out, "deploy")

(* an admitted, judged pair needs its backend *)
NeedsBackend(x) ==
    {HTTPBackend(x, KeyOwner(x, key)) : key \in {k2 \in AllKeys(x) : ~KeyDontCare(x, k2) /\ KeyOwner(x, k2) # 0}}
    \cup {TCPBackend(x, TCPOwner(x, i)) : i \in {i2 \in ListenerIds : TCPOwner(x, i2) # 0 /\ ~\E k \in TCPSlots(x) : DontCare(x, k, i2)}}

Verdicts(e) ==
    LET x == e.w
        o == ObsOf(e)
        V(inv, d) == [id |-> e.id, step |-> e.step, inv |-> inv, d |-> d] IN
    {V("Produced", ToString(p)) : p \in MissingRule(x, o)}
    \cup {V("NotProduced", ToString(p)) : p \in LeakedRule(x, o)}
    \cup {V("OldestRouteWins", ToString(p)) : p \in WrongOwner(x, o)}
    \cup {V("NotProduced", ToString(u)) : u \in Unattributed(x, o)}
    \* C06: the same objects, listed in another order by the API, give another configuration
    \cup (IF e.det THEN {} ELSE {V("Deterministic", ToString(e.detdiff))})
    \cup {V("TCPPort", ToString(i)) : i \in TCPBad(x, o)}
    \cup {V("NotProduced", ToString(t)) : t \in TCPForeign(x, o)}
    \cup {V("Weighted:" \o BackendBroken(x, b), b.s) : b \in {b2 \in o.backs : BackendBroken(x, b2) # "none"}}
    \cup {V("Weighted:MissingBackend", s) : s \in {s2 \in NeedsBackend(x) : ~\E b \in o.backs : b.s = s2}}

(* how much was judged (vacuity guard of the check) *)
Count(e) ==
    LET x == e.w
        P == {p \in [k : HTTPSlots(x), i : ListenerIds] : ~DontCare(x, p.k, p.i)} IN
    [adm |-> Cardinality({p \in P : AdmittedPair(x, p.k, p.i)}),
     rej |-> Cardinality({p \in P : ~AdmittedPair(x, p.k, p.i)}),
     conflict |-> Cardinality({key \in AllKeys(x) : ~KeyDontCare(x, key) /\ Cardinality({k \in HTTPSlots(x) : MustHave(x, k, key)}) > 1}),
     tcpadm |-> Cardinality({i \in ListenerIds : TCPOwner(x, i) # 0 /\ ~\E k \in TCPSlots(x) : DontCare(x, k, i)}),
     weighted |-> Len(e.obs.backs)]

TraceNext ==
    /\ l <= Len(Trace) /\ l' = l + 1
    /\ bad' = bad \cup Verdicts(Trace[l])
    /\ LET c == Count(Trace[l]) IN stat' = [f \in DOMAIN stat |-> stat[f] + c[f]]
    /\ UNCHANGED vars

TraceInit == w = World0 /\ hist = <<>> /\ nmut = 0 /\ l = 1 /\ bad = {} /\ stat = [adm |-> 0, rej |-> 0, conflict |-> 0, tcpadm |-> 0, weighted |-> 0]
TraceSpec == TraceInit /\ [][TraceNext]_<<vars, l, bad, stat>>
Result == l = Len(Trace) + 1 => PrintT(<<"RESULT", ToJson([n |-> l - 1, bad |-> bad, stat |-> stat])>>)
=============================================================================
