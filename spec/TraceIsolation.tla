--------------------------- MODULE TraceIsolation ---------------------------
(* Judges pairs of worlds run on the real pipeline (harness/cmd/isox): reference to an existing foreign object vs
   reference to nothing. *)
EXTENDS Isolation

Trace == ndJsonDeserialize("trace.ndjson")
VARIABLES l, bad, vacuous, permseen, permdiff

TraceNext ==
    /\ l <= Len(Trace) /\ l' = l + 1
    /\ LET e == Trace[l] IN
       /\ bad' = IF ~Permitted(e.cs) /\ ~e.same THEN bad \cup {[id |-> e.id, inv |-> "Isolated", cs |-> e.cs]} ELSE bad
       \* sanity of the experiment: an allowed reference must make a difference, or the pair proves nothing
       /\ vacuous' = IF Permitted(e.cs) /\ e.same THEN vacuous \cup {[id |-> e.id, site |-> e.cs.site, form |-> e.cs.form]} ELSE vacuous
       /\ permseen' = IF Permitted(e.cs) /\ Honoured(e.cs) THEN permseen \cup {[site |-> e.cs.site, form |-> e.cs.form]} ELSE permseen
       /\ permdiff' = IF Permitted(e.cs) /\ ~e.same THEN permdiff \cup {[site |-> e.cs.site, form |-> e.cs.form]} ELSE permdiff
    /\ UNCHANGED cs

(* cs plays no part in the judgement: one fixed value, not one validation per case *)
TraceInit == cs = (CHOOSE c \in Cases : TRUE) /\ l = 1 /\ bad = {} /\ vacuous = {} /\ permseen = {} /\ permdiff = {}
TraceSpec == TraceInit /\ [][TraceNext]_<<cs, l, bad, vacuous, permseen, permdiff>>
Result == l = Len(Trace) + 1 => PrintT(<<"RESULT", ToJson([n |-> l - 1, bad |-> bad, vacuous |-> vacuous, dead |-> permseen \ permdiff])>>)
=============================================================================
