------------------------------ MODULE TraceMaps ------------------------------
(***************************************************************************)
(* Judges the match files that the real HostsMaps / WriteFrontendMaps      *)
(* produced (harness/cmd/mapsx) for rule sets enumerated by Maps.tla:      *)
(* every request of the closed alphabet is looked up with HAProxy's        *)
(* semantics and compared with the documented precedence.                  *)
(***************************************************************************)
EXTENDS Maps

Trace == ndJsonDeserialize("trace.ndjson")

VARIABLES l, bad

SeqOf(t) == [i \in 1..Len(t) |-> t[i]]
RulesOf(e) == {[id |-> e.rules[i].id, h |-> e.rules[i].h, p |-> SeqOf(e.rules[i].p), ty |-> e.rules[i].ty] : i \in 1..Len(e.rules)}
FilesOf(e) == [i \in 1..Len(e.files) |->
                 [method |-> e.files[i].method, lower |-> e.files[i].lower,
                  entries |-> [j \in 1..Len(e.files[i].entries) |-> [k |-> SeqOf(e.files[i].entries[j].k), v |-> e.files[i].entries[j].v]]]]

(* the key the frontend computes: req.base = host "#" path *)
KeyOf(e, h, path) == SeqOf(e.hostkeys[h]) \o <<"#">> \o path

Judge(e) ==
    LET rules == RulesOf(e)
        files == FilesOf(e)
    IN UNION {
         (IF PathPrecedence(rules, files, h, path, KeyOf(e, h, path)) THEN {}
          ELSE {[case |-> e.id, inv |-> "PathPrecedence", h |-> h, path |-> path,
                 got |-> LookupFiles(files, KeyOf(e, h, path))]}) \cup
         (IF NoCrossHost(rules, files, h, KeyOf(e, h, path)) THEN {}
          ELSE {[case |-> e.id, inv |-> "NoCrossHost", h |-> h, path |-> path,
                 got |-> LookupFiles(files, KeyOf(e, h, path))]})
         : h \in Hosts, path \in ReqPaths}

TraceNext == /\ l <= Len(Trace)
             /\ l' = l + 1
             /\ bad' = bad \cup Judge(Trace[l])
             /\ UNCHANGED rs

TraceInit == rs = {} /\ l = 1 /\ bad = {}
TraceSpec == TraceInit /\ [][TraceNext]_<<rs, l, bad>>

Result == l = Len(Trace) + 1 => PrintT(<<"RESULT", ToJson([n |-> l - 1, bad |-> bad])>>)
=============================================================================
