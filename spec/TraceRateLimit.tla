--------------------------- MODULE TraceRateLimit ---------------------------
(***************************************************************************)
(* Judges histories recorded from the real limiters and work queues        *)
(* (harness/cmd/c13) against RateLimit.tla.                                *)
(*                                                                         *)
(*  - Layer A (the verdict): MinSpacing / Coalesced / BoundedDelay of      *)
(*    RateLimitProps evaluated after every recorded event on the history   *)
(*    in milliseconds, with the jitter allowance EpsMs.  A failure is      *)
(*    collected in `bad` (trace id + property) and printed at the end.     *)
(*  - Layer B (conformance): the recorded events, mapped to grid units,    *)
(*    must be a behaviour of RateLimit's actions (silent Tick/Ready/Done   *)
(*    steps are composed in).  The first event of a trace that is not      *)
(*    enabled is collected in `drift` and the rest of that trace is only   *)
(*    judged at layer A.                                                   *)
(* Traces are concatenated; a Reset event starts the next one.             *)
(***************************************************************************)
EXTENDS RateLimit

CONSTANTS Unit,    \* milliseconds per grid unit
          EpsMs    \* jitter allowance of the layer A judgement, milliseconds

Ms == INSTANCE RateLimitProps WITH Interval <- Interval * Unit, Wait <- Wait * Unit, Eps <- EpsMs, Slack <- Slack * Unit

Trace == ndJsonDeserialize("trace.ndjson")

VARIABLES l,      \* next line of the trace
          hms,    \* history in milliseconds (layer A)
          tr,     \* id of the current trace
          skip,   \* layer B conformance given up for the current trace
          bad,    \* layer A failures: {[tr, inv]}
          drift   \* layer B mismatches: {[tr, at, ev]}

tvars == <<vars, l, hms, tr, skip, bad, drift>>

Judge(h, T, id) ==
    {[tr |-> id, inv |-> "MinSpacing"]   : x \in IF Ms!MinSpacing(h) THEN {} ELSE {1}} \cup
    {[tr |-> id, inv |-> "Coalesced"]    : x \in IF Ms!Coalesced(h) THEN {} ELSE {1}} \cup
    {[tr |-> id, inv |-> "BoundedDelay"] : x \in IF Ms!BoundedDelay(h, T) THEN {} ELSE {1}}

NothingPending == \A k \in Kinds : waiting[k] = NoDeadline /\ ~queued[k] /\ busy[k] = NoDeadline /\ ~redo[k]

Silent == \E k \in Kinds : Ready(k) \/ Done(k)
SilentEnabled == \E k \in Kinds :
    \/ (waiting[k] # NoDeadline /\ waiting[k] <= now)
    \/ (busy[k] # NoDeadline /\ busy[k] <= now)

CanStep(e) ==
    \/ e.ev = "Reset"
    \/ SilentEnabled
    \/ now < e.t /\ ~Due
    \/ now = e.t /\ e.ev = "Arrive" /\ ~Due
    \/ now = e.t /\ e.ev = "Run" /\ queued[e.k] /\ WorkerFree
    \/ now = e.t /\ e.ev = "End" /\ NothingPending

ResetB ==
    /\ now' = 0 /\ last' = Never
    /\ waiting' = [k \in Kinds |-> NoDeadline]
    /\ queued' = [k \in Kinds |-> FALSE]
    /\ busy' = [k \in Kinds |-> NoDeadline]
    /\ redo' = [k \in Kinds |-> FALSE]
    /\ hist' = <<>>

(* consume one recorded event *)
Consume(e) ==
    /\ l' = l + 1
    /\ IF e.ev = "Reset"
       THEN /\ hms' = <<>> /\ tr' = e.tr /\ skip' = (e.ongrid = 0)
            /\ bad' = bad
            /\ drift' = drift \cup {[tr |-> e.tr, at |-> 0, ev |-> "offgrid"] : x \in IF e.ongrid = 0 THEN {1} ELSE {}}
            /\ ResetB
       ELSE /\ hms' = IF e.ev = "End" THEN hms ELSE Append(hms, [ev |-> e.ev, t |-> e.ms, k |-> e.k])
            /\ tr' = tr
            /\ bad' = bad \cup Judge(hms', e.ms, tr)
            /\ IF skip
               THEN UNCHANGED <<vars, skip, drift>>
               ELSE IF ~CanStep(e)
                    THEN /\ skip' = TRUE
                         /\ drift' = drift \cup {[tr |-> tr, at |-> e.t, ev |-> e.ev]}
                         /\ UNCHANGED vars
                    ELSE /\ now = e.t
                         /\ UNCHANGED <<skip, drift>>
                         /\ CASE e.ev = "Arrive" -> Arrive(e.k)
                              [] e.ev = "Run"    -> Fire(e.k, e.p)
                              [] e.ev = "End"    -> NothingPending /\ UNCHANGED vars

TraceNext ==
    /\ l <= Len(Trace)
    /\ LET e == Trace[l] IN
       \/ Consume(e)
       \/ /\ e.ev # "Reset" /\ ~skip /\ CanStep(e)
          /\ (Silent \/ (now < e.t /\ Tick))
          /\ UNCHANGED <<l, hms, tr, skip, bad, drift>>

TraceInit ==
    /\ Init
    /\ l = 1 /\ hms = <<>> /\ tr = "" /\ skip = FALSE /\ bad = {} /\ drift = {}

TraceSpec == TraceInit /\ [][TraceNext]_tvars

(* printed once, in the state that has consumed the whole trace *)
Result ==
    l = Len(Trace) + 1 =>
        PrintT(<<"RESULT", ToJson([n |-> l - 1, bad |-> bad, drift |-> drift])>>)

=============================================================================
