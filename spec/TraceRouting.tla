---------------------------- MODULE TraceRouting ----------------------------
(***************************************************************************)
(* Judges, for every recorded quiescent point of a core-vocabulary history *)
(* (harness/cmd/ctl -routing), every request of the request set: the       *)
(* backend the generated frontend + maps select (Routing!Route) must be    *)
(* one the documentation allows (Routing!Expected), and that backend must  *)
(* hold exactly the ready endpoints of the Service (draining ones only     *)
(* with drain-support).                                                    *)
(***************************************************************************)
EXTENDS Routing

CONSTANT JudgeWhat   \* "routes" (C03) | "certs" (C15)

Trace == ndJsonDeserialize("trace.ndjson")
VARIABLES l, bad

ToSetT(t) == {t[i] : i \in 1..Len(t)}
IngOfC(c) == [i \in Slots |-> c.ing[ToString(i)]]
EpsOfC(c) == [s \in Svcs |-> c.eps[s]]

Reqs == [scheme : {"http", "https"}, hi : 1..Len(ReqHosts), pi : 1..Len(ReqPaths)]

BackendNames(e) == {e.routing.backs[i].s : i \in 1..Len(e.routing.backs)}

(* name of the service behind a backend name: d_<svc>_8080 is logged as <svc> by the harness *)
Judge(e) ==
    LET g == IngOfC(e.cluster)
        backends == BackendNames(e) \cup {"_error404", "_default"}
    IN UNION {
        LET req == [scheme |-> q.scheme, host |-> ReqHosts[q.hi].chars, path |-> ReqPaths[q.pi]]
            front == IF q.scheme = "http" THEN e.routing.http ELSE e.routing.https
            got == Route(front, backends, req)
            exp == Expected(g, e.routing.defaultsvc, req, ReqHosts[q.hi].name, ReqHosts[q.hi].wild)
        IN IF got \in exp THEN {}
           ELSE {[tr |-> e.tr, step |-> e.step, inv |-> "RouteOK", scheme |-> q.scheme, host |-> ReqHosts[q.hi].name,
                  path |-> ReqPaths[q.pi], got |-> got, expected |-> exp]}
        : q \in Reqs} \cup
       \* servers: exactly the ready endpoints; not-ready ones only as draining servers and only with drain-support
       UNION {
        LET b == e.routing.backs[i] IN
        IF b.s \notin Svcs THEN {}
        ELSE IF ToSetT(b.eps) = EpsReady(EpsOfC(e.cluster)[b.s]) /\
                ToSetT(b.dr) = (IF e.routing.drain THEN EpsNotReady(EpsOfC(e.cluster)[b.s]) ELSE {})
             THEN {}
             ELSE {[tr |-> e.tr, step |-> e.step, inv |-> "ServersOK", scheme |-> "", host |-> b.s, path |-> <<>>,
                    got |-> "", expected |-> {}]}
        : i \in 1..Len(e.routing.backs)}

SecOfC(c) == [x \in Secrets |-> c.sec[x]]

(* C15: every SNI name gets the certificate its first declaring Ingress names (current content), else the default one *)
JudgeCerts(e) ==
    UNION {
        LET sni == ReqSNI[k]
            got == SNI(e.routing.crtlist, sni.chars)
            exp == ExpectedCert(IngOfC(e.cluster), SecOfC(e.cluster), sni)
        IN IF (exp = "default" /\ got.dflt) \/ (exp # "default" /\ ~got.dflt /\ got.c = exp /\ got.cur) THEN {}
           ELSE {[tr |-> e.tr, step |-> e.step, inv |-> "CertOK", scheme |-> "sni", host |-> sni.name, path |-> <<>>,
                  got |-> IF got.dflt THEN "default" ELSE (IF got.cur THEN got.c ELSE "stale:" \o got.c), expected |-> {exp}]}
        : k \in 1..Len(ReqSNI)}

TraceNext ==
    /\ l <= Len(Trace) /\ l' = l + 1
    /\ bad' = IF Trace[l].ev = "State" /\ "routing" \in DOMAIN Trace[l] /\ ~Trace[l].err THEN bad \cup (IF JudgeWhat = "certs" THEN JudgeCerts(Trace[l]) ELSE Judge(Trace[l])) ELSE bad
    /\ UNCHANGED vars

TraceInit == Init /\ l = 1 /\ bad = {}
TraceSpec == TraceInit /\ [][TraceNext]_<<vars, l, bad>>
Result == l = Len(Trace) + 1 => PrintT(<<"RESULT", ToJson([n |-> l - 1, bad |-> bad])>>)
=============================================================================
