---------------------------- MODULE TraceSnippet ----------------------------
(* Judges the backend sections the real pipeline wrote for annotation snippets (harness/cmd/snipx). *)
EXTENDS Snippet

Trace == ndJsonDeserialize("trace.ndjson")
VARIABLES l, bad

SeqOf(t) == [i \in 1..Len(t) |-> t[i]]
(* the keywords: the list handed to the controller, or what the documented format of the raw option value says *)
KwsOf(e) == IF Len(e.kwopt) > 0 THEN ParseOption(SeqOf(e.kwopt)) ELSE {SeqOf(e.kw[i]) : i \in 1..Len(e.kw)}
LinesOf(e) == [i \in 1..Len(e.lines) |-> SeqOf(e.lines[i])]

TraceNext ==
    /\ l <= Len(Trace)
    /\ l' = l + 1
    /\ LET e == Trace[l]
           \* a snippet given as the default of the global ConfigMap is unaffected by the option: no keyword applies to it
           kws == IF e.src = "global" THEN {} ELSE KwsOf(e)
           x == Expected(SeqOf(e.text), kws)
       IN bad' = IF LinesOf(e) = x \/ (LinesOf(e) = <<>> /\ MayDrop(SeqOf(e.text), KwsOf(e))) THEN bad
                 ELSE bad \cup {[id |-> e.id, inv |-> IF e.src = "global" /\ Dropped(SeqOf(e.text), KwsOf(e)) THEN "GlobalSnippetFiltered"
                                               ELSE IF Dropped(SeqOf(e.text), kws) THEN "DroppedSnippetEmitted" ELSE "SnippetNotVerbatim",
                                 src |-> e.src]}
    /\ UNCHANGED txt

TraceInit == txt = <<>> /\ l = 1 /\ bad = {}
TraceSpec == TraceInit /\ [][TraceNext]_<<txt, l, bad>>
Result == l = Len(Trace) + 1 => PrintT(<<"RESULT", ToJson([n |-> l - 1, bad |-> bad])>>)
=============================================================================
