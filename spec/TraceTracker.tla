---------------------------- MODULE TraceTracker ----------------------------
(* Compares every answer of the real tracker (harness/cmd/trackx) with the model: the dirty set of a query, and -- through
   the following queries -- what was forgotten. *)
EXTENDS Tracker

Trace == ndJsonDeserialize("trace.ndjson")
VARIABLES l, bad

SetOf(t) == {t[i] : i \in 1..Len(t)}

TraceNext ==
    /\ l <= Len(Trace) /\ l' = l + 1
    /\ LET e == Trace[l] IN
       CASE e.op = "reset" -> edges' = {} /\ UNCHANGED <<bad, hist, last>>
         [] e.op = "track" -> edges' = edges \cup {{e.a, e.b}} /\ UNCHANGED <<bad, hist, last>>
         [] e.op = "clear" -> edges' = {} /\ UNCHANGED <<bad, hist, last>>
         [] e.op = "query" ->
              LET want == Reach(edges, SetOf(e.input)) IN
              /\ bad' = IF SetOf(e.out) = want THEN bad
                        ELSE bad \cup {[id |-> e.id, call |-> e.n, inv |-> IF want \subseteq SetOf(e.out) THEN "NoCollateral" ELSE "DirtyClosed",
                                        got |-> SetOf(e.out), want |-> want]}
              /\ edges' = IF e.remove THEN {x \in edges : x \cap want = {}} ELSE edges
              /\ UNCHANGED <<hist, last>>

TraceInit == Init /\ l = 1 /\ bad = {}
TraceSpec == TraceInit /\ [][TraceNext]_<<vars, l, bad>>
Result == l = Len(Trace) + 1 => PrintT(<<"RESULT", ToJson([n |-> l - 1, bad |-> bad])>>)
=============================================================================
