--------------------------- MODULE TraceWatchers ---------------------------
(* Validates executions of the real watchers (harness/cmd/watchx) against spec/Watchers.tla: sequential replays of
   TLC-proposed schedules and concurrent runs under the race detector (delivery order reconstructed from the order of
   the object list entries, which are appended under the lock).  One line per delivery / swap; "Reset" starts the
   next execution. *)
EXTENDS Watchers

Trace == ndJsonDeserialize("trace.ndjson")
VARIABLES l, bad, drift, rb, pos, tr

tvars == <<vars, l, bad, drift, rb, pos, tr>>

V(inv, d) == [tr |-> tr, line |-> l, inv |-> inv, d |-> d]

(* recorded batch as a model record *)
BatchOf(x) == [objs |-> x.objs, links |-> [r \in Res |-> x.links[r]], ia |-> x.ia, iu |-> x.iu, id |-> x.id,
               gcur |-> x.gcur, gnew |-> x.gnew, tcur |-> x.tcur, tnew |-> x.tnew, full |-> x.full]

(* a broken implementation yields thousands of verdicts: the first 60 are kept (the set is part of every state TLC fingerprints) *)
Cap(s) == IF Cardinality(bad) >= 60 THEN bad ELSE s

StepDeliver(x) ==
    LET e == x.e
        want == IF e.res \in FullRes THEN <<"full">> ELSE <<"partial">> IN
    /\ bad' = Cap(bad
          \cup (IF x.acc # Accepted(e) THEN {V("Accepted", Key(e))} ELSE {})
          \* every accepted event puts one item of the right kind in the queue (<<"?">>: not recorded per event)
          \cup (IF x.q # <<"?">> /\ x.acc /\ x.q # want THEN {V("Notified", Key(e))} ELSE {})
          \cup (IF x.q # <<"?">> /\ ~x.acc /\ x.q # <<>> THEN {V("Notified", Key(e))} ELSE {})
          \* the events of one informer goroutine are handled in the order it delivers them
          \cup (IF x.acc /\ x.p \in DOMAIN pos /\ pos[x.p] >= x.j THEN {V("Order", Key(e))} ELSE {}))
    /\ pos' = IF x.acc THEN [q \in DOMAIN pos \cup {x.p} |-> IF q = x.p THEN x.j ELSE pos[q]] ELSE pos
    /\ IF x.acc THEN ch' = Handle(ch, e) /\ win' = Append(win, e) /\ queue' = Append(queue, want[1])
       ELSE UNCHANGED <<ch, win, queue>>
    /\ UNCHANGED <<batches, hist, drift, rb, tr, slice>>

StepSwap(x) ==
    LET b == BatchOf(x.b)
        nrb == Append(rb, [b |-> b, win |-> win])
        k == Len(nrb) IN
    /\ bad' = Cap(bad
          \cup (IF ~Listed(b, win) THEN {V("ExactlyOneBatch", ToString(b.objs))} ELSE {})
          \cup (IF ~Described(b, win) THEN {V("Described", ToString(<<b.ia, b.iu, b.id, b.gnew, b.tnew>>))} ELSE {})
          \cup (IF ~Chained(nrb, k) THEN {V("DataChained", ToString(<<b.gcur, b.tcur>>))} ELSE {})
          \* the batch a reconciliation holds is its own: events arriving later belong to the next one and leave it alone
          \cup (IF ~x.stable THEN {V("ExactlyOneBatch", "the batch handed out before this one changed while it was held")} ELSE {}))
    /\ drift' = IF Cardinality(drift) >= 60 THEN drift ELSE IF Listed(b, win) /\ Described(b, win) /\ Chained(nrb, k) /\ b # ch THEN drift \cup {V("BatchDiffers", ToString(b))} ELSE drift
    /\ rb' = nrb
    /\ ch' = NextCh(ch) /\ win' = <<>>
    /\ UNCHANGED <<batches, queue, hist, pos, tr, slice>>

StepReset(x) ==
    /\ bad' = bad
    /\ ch' = EmptyCh(0, 0) /\ win' = <<>> /\ rb' = <<>> /\ pos' = <<>> /\ tr' = x.id /\ queue' = <<>>
    /\ slice' = x.slice
    /\ UNCHANGED <<batches, hist, drift>>

(* totals of the queue items at the end of an execution *)
StepCounts(x) ==
    LET nf == Cardinality({i \in 1..Len(queue) : queue[i] = "full"}) IN
    /\ bad' = Cap(bad
          \cup (IF x.full # nf \/ x.partial # Len(queue) - nf THEN {V("Notified", ToString(<<x.full, x.partial, nf, Len(queue) - nf>>))} ELSE {})
          \cup (IF win # <<>> THEN {V("ExactlyOneBatch", "accepted events in no batch: " \o ToString(Len(win)))} ELSE {}))
    /\ UNCHANGED <<vars, drift, rb, pos, tr>>

TraceNext ==
    /\ l <= Len(Trace) /\ l' = l + 1
    /\ LET x == Trace[l] IN
       CASE x.ev = "Deliver" -> StepDeliver(x)
         [] x.ev = "Swap" -> StepSwap(x)
         [] x.ev = "Reset" -> StepReset(x)
         [] x.ev = "Counts" -> StepCounts(x)

TraceInit == Init /\ slice = FALSE /\ l = 1 /\ bad = {} /\ drift = {} /\ rb = <<>> /\ pos = <<>> /\ tr = "none"
TraceSpec == TraceInit /\ [][TraceNext]_tvars
Result == l = Len(Trace) + 1 => PrintT(<<"RESULT", ToJson([n |-> l - 1, bad |-> bad, drift |-> drift])>>)
=============================================================================
