---------------------------- MODULE TraceWeights ----------------------------
(* Judges (input, output) pairs recorded from the real RebalanceWeight and from the weights written on the
   server lines by the pipeline (blue/green annotations) -- harness/cmd/weightsx. *)
EXTENDS Weights

Trace == ndJsonDeserialize("trace.ndjson")
VARIABLES l, bad

SeqOf(t) == [i \in 1..Len(t) |-> t[i]]
InpOf(e) == [w |-> SeqOf(e.w), l |-> SeqOf(e.l), iw |-> e.iw]

TraceNext ==
    /\ l <= Len(Trace)
    /\ l' = l + 1
    /\ LET e == Trace[l]
           b0 == Broken(InpOf(e), SeqOf(e.out), e.mode)
           \* a draining server and a server outside every group get no traffic
           b == IF b0 = "none" /\ (\E i \in 1..Len(e.drain) : e.drain[i] # 0) THEN "ZeroIff:draining"
                ELSE IF b0 = "none" /\ (\E i \in 1..Len(e.nogroup) : e.nogroup[i] # 0) THEN "ZeroIff:nogroup" ELSE b0
       IN bad' = IF b = "none" THEN bad ELSE bad \cup {[id |-> e.id, inv |-> b, src |-> e.src]}
    /\ UNCHANGED inp

TraceInit == inp = [w |-> <<>>, l |-> <<>>, iw |-> 1] /\ l = 1 /\ bad = {}
TraceSpec == TraceInit /\ [][TraceNext]_<<inp, l, bad>>
Result == l = Len(Trace) + 1 => PrintT(<<"RESULT", ToJson([n |-> l - 1, bad |-> bad])>>)
=============================================================================
