------------------------------- MODULE Tracker -------------------------------
(***************************************************************************)
(* The tracker behind partial syncs (pkg/converters/tracker): an           *)
(* undirected graph between resources (ingress, hostname, backend,         *)
(* service, secret, ...).  A partial sync asks for everything linked,      *)
(* directly or not, to the changed resources -- the dirty set -- and       *)
(* forgets those links, because the dirty objects are parsed again and     *)
(* track themselves anew.  C01 rests on it: a resource that can be         *)
(* affected by a change must be in the dirty set (DirtyClosed), and        *)
(* forgetting must not touch anything else (NoCollateral).                 *)
(*                                                                         *)
(* TLC checks the invariants on the model and proposes call sequences; the *)
(* harness (harness/cmd/trackx) runs them on the real tracker and          *)
(* TraceTracker.tla compares every answer.                                 *)
(***************************************************************************)
EXTENDS Integers, Sequences, FiniteSets, TLC, Json

CONSTANTS MaxCalls

Nodes == {[ctx |-> "Ingress", name |-> "i1"], [ctx |-> "Ingress", name |-> "i2"], [ctx |-> "HAHostname", name |-> "h1"],
          [ctx |-> "HAHostname", name |-> "h2"], [ctx |-> "HABackend", name |-> "b1"], [ctx |-> "Service", name |-> "s1"]}

VARIABLES edges,   \* set of {a, b}
          hist,    \* calls so far
          last     \* ghost: [input, out, before] of the last query

vars == <<edges, hist, last>>

Neigh(E, n) == {m \in Nodes : {n, m} \in E}

RECURSIVE ReachFrom(_, _, _)
ReachFrom(E, frontier, seen) ==
    LET new == (UNION {Neigh(E, n) : n \in frontier}) \ seen IN
    IF new = {} THEN seen ELSE ReachFrom(E, new, seen \cup new)

(* everything linked to the inputs through at least one link (an input is part of the answer when it has a link at all) *)
Reach(E, input) == ReachFrom(E, input, {})

Track(a, b) ==
    /\ a # b
    /\ edges' = edges \cup {{a, b}}
    /\ hist' = Append(hist, [op |-> "track", a |-> a, b |-> b])
    /\ UNCHANGED last

Query(input, remove) ==
    LET out == Reach(edges, input) IN
    /\ edges' = IF remove THEN {e \in edges : e \cap out = {}} ELSE edges
    /\ hist' = Append(hist, [op |-> "query", input |-> input, remove |-> remove])
    /\ last' = [input |-> input, out |-> out, before |-> edges, remove |-> remove]

Clear == edges' = {} /\ hist' = Append(hist, [op |-> "clear"]) /\ UNCHANGED last

Init == edges = {} /\ hist = <<>> /\ last = [input |-> {}, out |-> {}, before |-> {}, remove |-> FALSE]

Inputs == {s \in SUBSET Nodes : Cardinality(s) \in {1, 2}}

Next ==
    /\ Len(hist) < MaxCalls
    /\ \/ \E a, b \in Nodes : Track(a, b)
       \/ \E s \in Inputs, r \in BOOLEAN : Query(s, r)
       \/ Clear

Spec == Init /\ [][Next]_vars

(* the dirty set is closed: whatever is linked to a member is a member *)
DirtyClosed == \A n \in last.out : Neigh(last.before, n) \subseteq last.out
(* and complete: everything linked to an input is in it *)
DirtyComplete == \A n \in last.input : Neigh(last.before, n) \subseteq last.out
(* forgetting: no link of a dirty resource survives, every other link does *)
Forgotten == (hist # <<>> /\ hist[Len(hist)].op = "query" /\ last.remove) =>
                 edges = {e \in last.before : e \cap last.out = {}}
NoCollateral == (hist # <<>> /\ hist[Len(hist)].op = "query") =>
                 \A e \in last.before : (e \cap last.out = {}) => e \in edges

Emit == (Len(hist) = MaxCalls) => PrintT(<<"BEHAVIOUR", ToJson(hist)>>)
=============================================================================
