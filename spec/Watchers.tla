------------------------------ MODULE Watchers ------------------------------
(***************************************************************************)
(* The hand-off between the informer goroutines and the reconciliation     *)
(* (property C14): pkg/controller/reconciler/watchers.go.                  *)
(*                                                                         *)
(* Every handler runs its whole body under watchers.mu: filter by the      *)
(* predicates, add/upd/del on the accumulator ch, compose (resource link + *)
(* object list entry), notify (queue item).  getChangedObjects copies and  *)
(* re-initialises ch under the same lock and carries the ConfigMap data    *)
(* forward.  One action per critical section.                              *)
(*                                                                         *)
(* TLC checks the property invariants over all interleavings of deliveries *)
(* and swaps within small bounds, and proposes the schedules the harness   *)
(* replays on the real watchers (harness/cmd/watchx); TraceWatchers.tla    *)
(* validates recorded executions -- sequential replays and concurrent      *)
(* runs under the race detector -- as behaviours of this specification.    *)
(***************************************************************************)
EXTENDS Integers, Sequences, FiniteSets, TLC, Json

CONSTANTS MaxEv,     \* deliveries per behaviour
          MaxSwap,   \* swaps per behaviour
          Modes      \* values of --enable-endpointslices-api explored (subset of BOOLEAN)

Res == {"ConfigMap", "Ingress", "IngressClass", "Service", "Secret", "Endpoints", "Pod", "Gateway", "GatewayClass", "HTTPRoute", "TCPRoute"}
(* kinds whose handler asks for a full sync (Gateway API resources have no partial parsing) *)
FullRes == {"IngressClass", "Gateway", "GatewayClass", "HTTPRoute", "TCPRoute"}
Ops == {"add", "update", "del"}

GlobalCM == "ingress/cfg"
TCPCM == "ingress/tcp"

(* an event: e.res, e.name, e.op; ConfigMap: e.v (data version); Ingress/IngressClass: e.old, e.new (valid for this
   controller before / after); Pod: e.term (deletionTimestamp changed) *)
(* ingress/other: another ConfigMap of the namespace of the controller (IngressClass parameters live there): accepted, it
   has a link and an object entry but no data of its own in the batch; x/other: a ConfigMap of another namespace: ignored *)
CMEvents == [res : {"ConfigMap"}, name : {GlobalCM, TCPCM, "ingress/other", "x/other"}, op : Ops, v : 1..3]
IngEvents == [res : {"Ingress"}, name : {"a/i1", "a/i2"}, op : Ops, old : BOOLEAN, new : BOOLEAN]
ClsEvents == [res : {"IngressClass"}, name : {"haproxy"}, op : Ops, old : BOOLEAN, new : BOOLEAN]
PlainEvents == [res : {"Service", "Secret"}, name : {"a/x", "a/y"}, op : Ops]
(* Endpoints: chg = the subsets differ between the old and the new object (only an update looks at it).
   EndpointSlice: one slice object a/x-k1 labelled with the service it belongs to (svc = "": no label, the slice goes by
   its own name); chg = its endpoints differ.  Which of the two kinds is listened to follows the command-line option
   (variable slice); both feed the same link kind "Endpoints", a slice under the name of its service. *)
EpEvents == [res : {"Endpoints"}, name : {"a/x", "a/y"}, op : Ops, chg : BOOLEAN]
SliceEvents == [res : {"EndpointSlice"}, name : {"a/x-k1"}, svc : {"a/x", ""}, op : Ops, chg : BOOLEAN]
PodEvents == [res : {"Pod"}, name : {"a/pod"}, op : Ops, term : BOOLEAN]
(* Gateway API v1 (and TCPRoute v1alpha2): no change description of their own, a link, an object entry and a full sync *)
GwEvents == [res : {"Gateway", "HTTPRoute", "TCPRoute"}, name : {"g/x"}, op : Ops]
GwClsEvents == [res : {"GatewayClass"}, name : {"gc"}, op : Ops, old : BOOLEAN, new : BOOLEAN]
Events == CMEvents \cup IngEvents \cup ClsEvents \cup PlainEvents \cup EpEvents \cup SliceEvents \cup PodEvents \cup GwEvents \cup GwClsEvents

VARIABLE slice      \* --enable-endpointslices-api, fixed for an execution

(* the kind and the name an event is filed under *)
LinkRes(e) == IF e.res = "EndpointSlice" THEN "Endpoints" ELSE e.res
LinkName(e) == IF e.res = "EndpointSlice" /\ e.svc # "" THEN e.svc ELSE e.name

(* the predicates of the handlers *)
Accepted(e) ==
    CASE e.res = "ConfigMap" -> e.name # "x/other"
      [] e.res = "Endpoints" -> ~slice /\ (e.op = "update" => e.chg)
      [] e.res = "EndpointSlice" -> slice /\ (e.op = "update" => e.chg)
      [] e.res \in {"Ingress", "IngressClass", "GatewayClass"} ->
            (CASE e.op = "add" -> e.new [] e.op = "del" -> e.old [] OTHER -> e.old \/ e.new)
      [] e.res = "Pod" -> (CASE e.op = "add" -> FALSE [] e.op = "update" -> e.term [] OTHER -> TRUE)
      [] OTHER -> TRUE

Key(e) == e.op \o "/" \o LinkRes(e) \o ":" \o LinkName(e)

AppendDedup(s, x) == IF \E i \in 1..Len(s) : s[i] = x THEN s ELSE Append(s, x)

EmptyCh(gcur, tcur) ==
    [objs |-> <<>>, links |-> [r \in Res |-> <<>>], ia |-> <<>>, iu |-> <<>>, id |-> <<>>,
     gcur |-> gcur, gnew |-> 0, tcur |-> tcur, tnew |-> 0, full |-> FALSE]

(* the data a deleted global / tcp ConfigMap delivers: empty, not "no new data" (0) -- otherwise its last content would
   stay in use although a freshly started controller finds nothing (finding F34) *)
Empty == 9
DataOf(e) == IF e.op = "del" THEN Empty ELSE e.v

(* add / upd / del of the handler of e.res *)
Apply(c, e) ==
    CASE e.res = "ConfigMap" /\ e.name \in {GlobalCM, TCPCM} ->
            IF e.name = GlobalCM THEN [c EXCEPT !.gnew = DataOf(e)] ELSE [c EXCEPT !.tnew = DataOf(e)]
      [] e.res = "Ingress" /\ e.op = "add" -> [c EXCEPT !.ia = Append(@, e.name)]
      [] e.res = "Ingress" /\ e.op = "del" -> [c EXCEPT !.id = Append(@, e.name)]
      [] e.res = "Ingress" /\ e.op = "update" ->
            (* moving in or out of the class of this controller is an add or a delete *)
            IF e.old /\ e.new THEN [c EXCEPT !.iu = Append(@, e.name)]
            ELSE IF e.new THEN [c EXCEPT !.ia = Append(@, e.name)]
            ELSE IF e.old THEN [c EXCEPT !.id = Append(@, e.name)] ELSE c
      [] OTHER -> c

Compose(c, e) == [c EXCEPT !.links[LinkRes(e)] = AppendDedup(@, LinkName(e)), !.objs = AppendDedup(@, Key(e))]
Notify(c, e) == IF e.res \in FullRes THEN [c EXCEPT !.full = TRUE] ELSE c

Handle(c, e) == Notify(Compose(Apply(c, e), e), e)

(* initCh: the data delivered last becomes the current one of the next batch *)
NextCh(c) == EmptyCh(IF c.gnew # 0 THEN c.gnew ELSE c.gcur, IF c.tnew # 0 THEN c.tnew ELSE c.tcur)

---------------------------------------------------------------------------
VARIABLES ch,       \* the accumulator
          batches,  \* batches handed to reconciliations
          queue,    \* items added to the reconciler queue (sequence of "full" / "partial")
          hist,     \* schedule so far: deliveries and swaps (what the harness replays)
          win       \* ghost: accepted events of the current window

vars == <<ch, batches, queue, hist, win, slice>>

Init == /\ ch = EmptyCh(0, 0) /\ batches = <<>> /\ queue = <<>> /\ win = <<>>
        /\ slice \in Modes
        /\ hist = <<[ev |-> "Mode", slice |-> slice]>>

NDeliv == Cardinality({i \in 1..Len(hist) : hist[i].ev = "Deliver"})
NSwap  == Len(batches)

Deliver(e) ==
    /\ NDeliv < MaxEv
    /\ hist' = Append(hist, [ev |-> "Deliver", e |-> e])
    /\ IF Accepted(e)
       THEN /\ ch' = Handle(ch, e)
            /\ queue' = Append(queue, IF e.res \in FullRes THEN "full" ELSE "partial")
            /\ win' = Append(win, e)
       ELSE UNCHANGED <<ch, queue, win>>
    /\ UNCHANGED <<batches, slice>>

Swap ==
    /\ NSwap < MaxSwap
    /\ batches' = Append(batches, [b |-> ch, win |-> win])
    /\ ch' = NextCh(ch)
    /\ win' = <<>>
    /\ hist' = Append(hist, [ev |-> "Swap"])
    /\ UNCHANGED <<queue, slice>>

Next == (\E e \in Events : Deliver(e)) \/ Swap
Spec == Init /\ [][Next]_vars

---------------------------------------------------------------------------
(* The property, on a batch b and the accepted events w of its window *)

SeqToSet(s) == {s[i] : i \in 1..Len(s)}

(* every accepted event of the window has its object list entry and its resource link, nothing else has *)
Listed(b, w) ==
    /\ SeqToSet(b.objs) = {Key(w[i]) : i \in 1..Len(w)}
    /\ \A r \in Res : SeqToSet(b.links[r]) = {LinkName(w[i]) : i \in {j \in 1..Len(w) : LinkRes(w[j]) = r}}
    /\ \A i, j \in 1..Len(b.objs) : i # j => b.objs[i] # b.objs[j]

IngSel(w, which) ==
    SelectSeq(w, LAMBDA e : e.res = "Ingress" /\
        (CASE which = "add" -> (e.op = "add" \/ (e.op = "update" /\ ~e.old /\ e.new))
           [] which = "upd" -> (e.op = "update" /\ e.old /\ e.new)
           [] which = "del" -> (e.op = "del" \/ (e.op = "update" /\ e.old /\ ~e.new))))
Names(s) == [i \in 1..Len(s) |-> s[i].name]

(* the change description: ingresses moving in / out of the class are adds / deletes; ConfigMap data *)
Described(b, w) ==
    /\ b.ia = Names(IngSel(w, "add")) /\ b.iu = Names(IngSel(w, "upd")) /\ b.id = Names(IngSel(w, "del"))
    /\ LET g == SelectSeq(w, LAMBDA e : e.res = "ConfigMap" /\ e.name = GlobalCM)
           t == SelectSeq(w, LAMBDA e : e.res = "ConfigMap" /\ e.name = TCPCM) IN
       /\ b.gnew = IF g = <<>> THEN 0 ELSE DataOf(g[Len(g)])
       /\ b.tnew = IF t = <<>> THEN 0 ELSE DataOf(t[Len(t)])

(* each batch sees the previously delivered data as current *)
LastNew(bs, k, fnew) ==
    LET c == {i \in 1..(k - 1) : bs[i].b[fnew] # 0} IN
    IF c = {} THEN 0 ELSE bs[CHOOSE i \in c : \A j \in c : j <= i].b[fnew]
Chained(bs, k) == bs[k].b.gcur = LastNew(bs, k, "gnew") /\ bs[k].b.tcur = LastNew(bs, k, "tnew")

(* model-level invariants: the specification itself satisfies the property *)
ExactlyOneBatch == \A k \in 1..Len(batches) : Listed(batches[k].b, batches[k].win) /\ Described(batches[k].b, batches[k].win)
DataChained == \A k \in 1..Len(batches) : Chained(batches, k)
NothingPending == Listed(ch, win) /\ Described(ch, win)
QueueFollows == Len(queue) = Len(win) + (LET F[k \in 0..Len(batches)] == IF k = 0 THEN 0 ELSE F[k - 1] + Len(batches[k].win) IN F[Len(batches)])

Emit == (NDeliv = MaxEv /\ NSwap = MaxSwap) => PrintT(<<"BEHAVIOUR", ToJson(hist)>>)
=============================================================================
