------------------------------- MODULE Weights -------------------------------
(***************************************************************************)
(* Weighted balancing (property C16): the contract of RebalanceWeight and  *)
(* of its callers (blue/green balance, Gateway backendRefs), in integer    *)
(* arithmetic.  Not a transcription: the implementation uses float32.      *)
(*                                                                         *)
(* Input: groups 1..n with configured weight W[i] in 0..256 and L[i]       *)
(* replicas; output: the weight w[i] written on every server of group i.   *)
(***************************************************************************)
EXTENDS Integers, Sequences, FiniteSets, TLC, Json

CONSTANTS WeightVals, ReplVals, InitVals, N

Abs(x) == IF x < 0 THEN 0 - x ELSE x

Grp(inp) == {i \in 1..Len(inp.w) : inp.l[i] > 0}     \* groups that have servers

(* every weight written is an integer in 0..256 *)
InRange(inp, out) == \A i \in Grp(inp) : out[i] >= 0 /\ out[i] <= 256

(* zero exactly when the configured weight of the group is zero *)
ZeroIff(inp, out) == \A i \in Grp(inp) : (out[i] = 0) <=> (inp.w[i] = 0)

(* order is preserved: a group with a smaller per-server ratio W/L never gets a larger server weight, and a
   group with a smaller configured weight never gets a larger share w x L, up to one rounding unit per server
   (a non-zero group never goes below weight 1 per server while the largest is capped at 256).  (Equal ratios may differ by the
   rounding unit: the float32 arithmetic of the implementation gives 14 and 13 to W/L = 1/1 and 3/3.) *)
OrderKept(inp, out) ==
    \A i, j \in Grp(inp) :
        /\ (inp.w[i] * inp.l[j] < inp.w[j] * inp.l[i]) => out[i] <= out[j]
        /\ (inp.w[i] < inp.w[j] /\ inp.w[i] > 0) => out[i] * inp.l[i] <= out[j] * inp.l[j] + inp.l[j] + inp.l[i]

(* the share of traffic of a group, w[i] x L[i], follows the configured proportion up to the rounding of
   one unit per server weight (truncation, and the documented "at least 1" for a non-zero group) *)
Proportional(inp, out) ==
    \A i, j \in Grp(inp) :
        (inp.w[i] > 0 /\ inp.w[j] > 0) =>
            Abs(out[i] * inp.l[i] * inp.w[j] - out[j] * inp.l[j] * inp.w[i]) <= inp.l[i] * inp.w[j] + inp.l[j] * inp.w[i]

(* the scale (documentation of initial-weight: "Blue/green on deploy mode also uses initial-weight as its minimum weight value,
   provided that the maximum is lesser than or equal 256"): with m the non-zero group of the smallest per-server ratio W/L and
   M the one of the largest, a server of group i gets  iw x (W[i]/L[i]) / (W[m]/L[m])  when that gives M at most 256, and
   256 x (W[i]/L[i]) / (W[M]/L[M])  otherwise -- truncated, never below 1; one unit of tolerance for the float32 arithmetic.
   Without it "up to integer rounding" would accept the degenerate answer 1 : 1 for any two weights. *)
NonZero(inp) == {i \in Grp(inp) : inp.w[i] > 0}
MinG(inp) == CHOOSE m \in NonZero(inp) : \A j \in NonZero(inp) : inp.w[m] * inp.l[j] <= inp.w[j] * inp.l[m]
MaxG(inp) == CHOOSE m \in NonZero(inp) : \A j \in NonZero(inp) : inp.w[m] * inp.l[j] >= inp.w[j] * inp.l[m]
Scaled(inp, out) ==
    NonZero(inp) # {} =>
        LET m == MinG(inp)
            M == MaxG(inp)
            \* iw x ratio(M) / ratio(m) <= 256
            fits == inp.iw * inp.w[M] * inp.l[m] <= 256 * inp.w[m] * inp.l[M]
        IN \A i \in NonZero(inp) :
              LET num == IF fits THEN inp.iw * inp.w[i] * inp.l[m] ELSE 256 * inp.w[i] * inp.l[M]
                  den == IF fits THEN inp.l[i] * inp.w[m] ELSE inp.l[i] * inp.w[M]
              IN \/ Abs(out[i] * den - num) <= den + den \div 64   \* |out - ideal| <= 1 (+ float32 slack on large values)
                 \/ (out[i] = 1 /\ num < den)

Contract(inp, out) == InRange(inp, out) /\ ZeroIff(inp, out) /\ OrderKept(inp, out) /\ Proportional(inp, out) /\ Scaled(inp, out)

(* blue/green mode "pod": the configured weight is written as is *)
PodMode(inp, out) == \A i \in Grp(inp) : out[i] = inp.w[i]

Broken(inp, out, mode) ==
    IF mode = "pod" THEN (IF PodMode(inp, out) THEN "none" ELSE "PodMode")
    ELSE IF ~InRange(inp, out) THEN "InRange"
    ELSE IF ~ZeroIff(inp, out) THEN "ZeroIff"
    ELSE IF ~OrderKept(inp, out) THEN "OrderKept"
    ELSE IF ~Proportional(inp, out) THEN "Proportional"
    ELSE IF ~Scaled(inp, out) THEN "Scaled" ELSE "none"

---------------------------------------------------------------------------
(* enumeration of the inputs *)
VARIABLE inp
Init == inp \in [w : [1..N -> WeightVals], l : [1..N -> ReplVals], iw : InitVals]
Next == UNCHANGED inp
Spec == Init /\ [][Next]_inp
Emit == PrintT(<<"BEHAVIOUR", ToJson(inp)>>)
=============================================================================
