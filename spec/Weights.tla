------------------------------- MODULE Weights -------------------------------
(***************************************************************************)
(* Weighted balancing (property C16): the contract of RebalanceWeight and  *)
(* of its callers (blue/green balance, Gateway backendRefs), in integer    *)
(* arithmetic.  Not a transcription: the implementation uses float32.      *)
(*                                                                         *)
(* Input: groups 1..n with configured weight W[i] in 0..256 and L[i]       *)
(* replicas; output: the weight w[i] written on every server of group i.   *)
(***************************************************************************)
EXTENDS Integers, Sequences, FiniteSets, TLC, Json

CONSTANTS WeightVals, ReplVals, InitVals, N

Abs(x) == IF x < 0 THEN 0 - x ELSE x

Grp(inp) == {i \in 1..Len(inp.w) : inp.l[i] > 0}     \* groups that have servers

(* every weight written is an integer in 0..256 *)
InRange(inp, out) == \A i \in Grp(inp) : out[i] >= 0 /\ out[i] <= 256

(* zero exactly when the configured weight of the group is zero *)
ZeroIff(inp, out) == \A i \in Grp(inp) : (out[i] = 0) <=> (inp.w[i] = 0)

(* order is preserved: a group with a smaller per-server ratio W/L never gets a larger server weight, and a
   group with a smaller configured weight never gets a larger share w x L, up to one rounding unit per server
   (a non-zero group never goes below weight 1 per server while the largest is capped at 256).  (Equal ratios may differ by the
   rounding unit: the float32 arithmetic of the implementation gives 14 and 13 to W/L = 1/1 and 3/3.) *)
OrderKept(inp, out) ==
    \A i, j \in Grp(inp) :
        /\ (inp.w[i] * inp.l[j] < inp.w[j] * inp.l[i]) => out[i] <= out[j]
        /\ (inp.w[i] < inp.w[j] /\ inp.w[i] > 0) => out[i] * inp.l[i] <= out[j] * inp.l[j] + inp.l[j] + inp.l[i]

(* the share of traffic of a group, w[i] x L[i], follows the configured proportion up to the rounding of
   one unit per server weight (truncation, and the documented "at least 1" for a non-zero group) *)
Proportional(inp, out) ==
    \A i, j \in Grp(inp) :
        (inp.w[i] > 0 /\ inp.w[j] > 0) =>
            Abs(out[i] * inp.l[i] * inp.w[j] - out[j] * inp.l[j] * inp.w[i]) <= inp.l[i] * inp.w[j] + inp.l[j] * inp.w[i]

Contract(inp, out) == InRange(inp, out) /\ ZeroIff(inp, out) /\ OrderKept(inp, out) /\ Proportional(inp, out)

(* blue/green mode "pod": the configured weight is written as is *)
PodMode(inp, out) == \A i \in Grp(inp) : out[i] = inp.w[i]

Broken(inp, out, mode) ==
    IF mode = "pod" THEN (IF PodMode(inp, out) THEN "none" ELSE "PodMode")
    ELSE IF ~InRange(inp, out) THEN "InRange"
    ELSE IF ~ZeroIff(inp, out) THEN "ZeroIff"
    ELSE IF ~OrderKept(inp, out) THEN "OrderKept"
    ELSE IF ~Proportional(inp, out) THEN "Proportional" ELSE "none"

---------------------------------------------------------------------------
(* enumeration of the inputs *)
VARIABLE inp
Init == inp \in [w : [1..N -> WeightVals], l : [1..N -> ReplVals], iw : InitVals]
Next == UNCHANGED inp
Spec == Init /\ [][Next]_inp
Emit == PrintT(<<"BEHAVIOUR", ToJson(inp)>>)
=============================================================================
