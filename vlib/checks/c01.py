"""C01 — incremental (partial) resyncs converge to the configuration of a full sync."""
import random
from .. import core, universe as U
from . import ctl

INVS = {"Converged", "ModelConverged"}


def c01_random(ctx, n_core, n_ext):
    rng = random.Random(ctx.seed * 7919 + 1)
    hs = [U.random_history(rng, "rc-%d" % i, steps=5 + rng.randrange(3)) for i in range(n_core)]
    for i in range(n_ext):
        h = U.random_history(rng, "rx-%d" % i, steps=5 + rng.randrange(3), ext=True)
        # the same redirect-from on two hosts is resolved by map iteration (finding F4, judged by C06):
        # keep redirect sources distinct per host here
        for st in h["steps"]:
            for op in st["ops"]:
                ann = op.get("ann") or {}
                if "redirect-from" in ann:
                    hosts = {r["host"] for r in op.get("rules", [])}
                    if len(hosts) != 1 or op.get("def"):
                        del ann["redirect-from"]
                    else:
                        ann["redirect-from"] = "old-%s" % sorted(hosts)[0]
        hs.append(h)
    # IngressClass parameters: a ConfigMap of the controller's namespace gives defaults to the ingresses of the class
    for i in range(max(20, n_ext // 12)):
        vals = ["leastconn", "first", "roundrobin"]
        cm = lambda v: dict(kind="cm", name="ingress/params", data={"balance-algorithm": v, "timeout-server": "3%ds" % len(v)})
        steps = [dict(ops=U.base_ops() + [cm(rng.choice(vals)), dict(kind="class", name="haproxy", controller="haproxy-ingress.github.io/controller", params="params"),
                                          U.op_ing(1, rng.choice(["t1", "t4", "t6"]), klass="haproxy"), U.op_ing(2, rng.choice(["t2", "t9"]))])]
        for k in range(2 + rng.randrange(3)):
            r = rng.random()
            if r < 0.5:
                steps.append(dict(ops=[cm(rng.choice(vals))]))
            elif r < 0.7:
                steps.append(dict(ops=[U.op_ing(rng.choice([1, 2, 3]), rng.choice(["t1", "t2", "t4"]), klass=rng.choice(["haproxy", None]))]))
            else:
                steps.append(dict(ops=[U.op_eps(rng.choice(["s1", "s2"]), rng.choice(["e1", "e2", "e4"]))]))
        hs.append(dict(id="pm-%d" % i, opt=dict(shards=0, watchwithoutclass=True), steps=steps))
    # tcp services sharing a port between a host-less ingress and SNI hostnames
    hs += [U.random_tcp_history(rng, "rt-%d" % i, steps=4 + rng.randrange(3)) for i in range(max(60, n_ext // 4))]
    # strict-host: hosts without a root path borrow the one of the default host (or the default backend), which comes, goes and changes
    for i in range(max(40, n_ext // 8)):
        opt = dict(shards=rng.choice([0, 3]), watchwithoutclass=True)
        if rng.random() < 0.5:
            opt["defaultsvc"] = "d/s2"
        steps = [dict(ops=U.base_ops() + [U.op_sec("c1", "crt:c1"), U.op_sec("c2", "crt:c2"), U.op_cm({"strict-host": "true"}),
                                          U.op_ing(1, rng.choice(["t2", "t5", "t6", "t11"])), U.op_ing(2, rng.choice(["t4", "t9", "t12"]))])]
        for k in range(3 + rng.randrange(3)):
            r = rng.random()
            if r < 0.4:
                steps.append(dict(ops=[U.op_ing(3, rng.choice(["t8", "t15", "t16"]), rng.choice([None, None, {"redirect-to": "https://x.local"}, {"balance-algorithm": "leastconn"}]))]))
            elif r < 0.6:
                steps.append(dict(ops=[U.op_del("ing", "d/i3")]))
            elif r < 0.8:
                steps.append(dict(ops=[U.op_ing(rng.choice([1, 2]), rng.choice(["t1", "t2", "t4", "t6", "t9"]))]))
            else:
                steps.append(dict(ops=[U.op_eps(rng.choice(["s1", "s2"]), rng.choice(["e0", "e1", "e2"]))]))
        hs.append(dict(id="st-%d" % i, opt=opt, steps=steps))
    # a small auth-proxy range shared by external authentications placed in the backend and in the frontend: targets change, binds are
    # released and reused
    urls = ["http://10.0.0.9:8000/auth", "http://10.0.0.8:8000/auth", "http://10.0.0.7:8000/auth", "http://10.0.0.6:8000/auth"]
    for i in range(max(30, n_ext // 10)):
        size = rng.choice([1, 2, 2, 3])
        cmx = U.op_cm({"auth-proxy": "_front__auth:14415-1441%d" % (4 + size)})
        live = {}

        def mk(slot):
            # the range is large enough for the targets in use (who is denied when it is not depends on the order of the requests,
            # in a fresh controller as well); it gets exhausted by the binds partial syncs leave behind
            others = {u for k, u in live.items() if k != slot}
            cand = [u for u in urls if len(others | {u}) <= size]
            live[slot] = rng.choice(cand)
            return U.op_ing(slot, {1: "t1", 2: "t9", 3: "t2"}[slot],
                            dict({"auth-url": live[slot]}, **({"auth-external-placement": "frontend"} if rng.random() < 0.4 else {})))
        steps = [dict(ops=U.base_ops() + [U.op_sec("c2", "crt:c2"), cmx, mk(1), mk(2)])]
        for k in range(3 + rng.randrange(3)):
            if rng.random() < 0.75:
                steps.append(dict(ops=[mk(rng.choice([1, 2, 3]))]))
            else:
                slot = rng.choice([1, 2, 3])
                live.pop(slot, None)
                steps.append(dict(ops=[U.op_del("ing", "d/i%d" % slot)]))
        hs.append(dict(id="ax-%d" % i, opt=dict(shards=0, watchwithoutclass=True), steps=steps))
    # TCP services of the tcp-services ConfigMap
    hs += [U.random_tcpcm_history(rng, "rm-%d" % i, steps=4 + rng.randrange(3)) for i in range(max(60, n_ext // 5))]
    # pods behind the endpoints: drain-support, blue/green by pod label, names, cookies and ids taken from the pod
    hs += [U.random_pod_history(rng, "rp-%d" % i, steps=4 + rng.randrange(3)) for i in range(max(60, n_ext // 4))]
    # drain-support: a pod starts terminating and leaves the Endpoints, stays as a draining server, and is finally deleted (the delete
    # of the pod is the only event of that batch)
    for k, (svc, tmpl) in enumerate([("s1", "t1"), ("s2", "t9"), ("s1", "t4"), ("s2", "t2")]):
        pods = [U.op_pod(s, n, group="blue") for s in ("s1", "s2") for n in (1, 2, 3)]
        steps = [dict(ops=U.base_ops() + [U.op_sec("c1", "crt:c1"), U.op_sec("c2", "crt:c2"), U.op_cm({"drain-support": "true"})] + pods +
                          [U.op_eps("s1", "e4"), U.op_eps("s2", "e4"), U.op_ing(1, tmpl)]),
                 dict(ops=[U.op_pod(svc, 2, terminating=True, group="blue"), U.op_eps(svc, "e1")]),
                 dict(ops=[U.op_del("pod", "d/%s-2" % svc)]),
                 dict(ops=[U.op_pod(svc, 3, terminating=True, group="blue")]),
                 dict(ops=[U.op_del("pod", "d/%s-3" % svc)])]
        hs.append(dict(id="drain-%d" % k, opt=dict(shards=0 if k < 2 else 3, watchwithoutclass=True), steps=steps))
    return hs


TCFG = "SPECIFICATION %s\nCONSTANTS\n    MaxCalls = %d\nINVARIANTS\n    %s\nCHECK_DEADLOCK FALSE\n"


def tracker_conformance(ctx):
    """The dirty-set computation partial syncs rest on: Tracker.tla model-checked, TLC-proposed call sequences replayed on the
    real tracker, every answer compared by TLC (TraceTracker.tla)."""
    import json, os, re
    core.build_harness(ctx, ["trackx"])
    core.tlc_design(ctx, "design-tracker", "Tracker", None, cfgtext=TCFG % ("Spec", 3, "DirtyClosed\n    DirtyComplete\n    Forgotten\n    NoCollateral"),
                    workers=core.NCPU, timeout=1800)
    seqs, seen = [], set()
    runs = [dict(cfgtext=TCFG % ("Spec", 2, "Emit"), workers=1, timeout=900)]
    for s in range(1 if ctx.quick() else 6):
        runs.append(dict(cfgtext=TCFG % ("Spec", 7, "Emit"), workers=1, timeout=900, simulate="num=%d" % (150 if ctx.quick() else 800), depth=9,
                         extra=["-seed", str(ctx.seed * 10 + s)]))
    for i, kw in enumerate(runs):
        r = core.tlc(ctx, "gen-tracker-%d" % i, "Tracker", None, **kw)
        if r["rc"] != 0:
            raise core.Undecided("tracker sequence generation failed:\n" + r["out"][-2000:])
        for t in re.findall(r'<<"BEHAVIOUR", "(.*)">>', r["out"]):
            t = json.loads('"' + t + '"')
            if t not in seen:
                seen.add(t)
                seqs.append(json.loads(t))
    if len(seqs) < 3000:
        raise core.Undecided("TLC proposed only %d tracker call sequences" % len(seqs))
    inp, out = ctx.path("trk", "in.json"), ctx.path("trk", "trace.ndjson")
    json.dump(seqs, open(inp, "w"))
    core.run([os.path.join(ctx.bindir, "trackx"), "-in", inp, "-out", out], timeout=900, env=dict(VERIF_REPO=core.REPO))
    n = core.count_lines(out)
    r = core.tlc(ctx, "judge-tracker", "TraceTracker", None, cfgtext=TCFG % ("TraceSpec", 0, "Result"), workers=1, timeout=1800, files={out: "trace.ndjson"})
    m = re.findall(r'<<"RESULT", "(.*)">>', r["out"])
    if r["rc"] != 0 or not m:
        raise core.Undecided("tracker trace validation did not complete:\n" + r["out"][-2000:])
    res = json.loads(json.loads('"' + m[-1] + '"'))
    if res["n"] != n:
        raise core.Undecided("tracker trace validation consumed %d of %d lines" % (res["n"], n))
    ctx.trace_events += n
    ctx.traces_validated += len(seqs)
    done = set()
    for b in sorted(res["bad"], key=lambda b: (b["call"], b["id"])):
        sig = "Tracker:" + b["inv"]
        if sig in done:
            continue
        done.add(sig)
        sf = ctx.path("viol", b["id"] + ".tracker.json")
        json.dump([seqs[int(b["id"][1:])][:b["call"] + 1]], open(sf, "w"), indent=1)
        d = core.save_replay(ctx, sig, [sf], dict(invariant=b["inv"], got=b["got"], want=b["want"], how="harness/cmd/trackx -in <tracker.json>"))
        core.classify(ctx, sig, "%s: the tracker answers %s to call %d of sequence %s, the links say %s" % (b["inv"], b["got"], b["call"], b["id"], b["want"]), d)
    return len(seqs)


def run(ctx):
    core.build_harness(ctx, ["ctl"])
    ctl.design(ctx)
    ntrk = tracker_conformance(ctx)
    q = ctx.quick()
    hs = ctl.tlc_histories(ctx, 500 if q else 8000, maxops=3, maxbatches=3, tag="sim",
                           opts=[dict(shards=0, watchwithoutclass=True), dict(shards=3, watchwithoutclass=True)])
    if not q:
        hs += ctl.tlc_exhaustive(ctx, [1, 2], ["t1", "t3", "t5", "t10"], 2, 2, tag="ex")
    hs += c01_random(ctx, 150 if q else 3000, 250 if q else 5000)
    out, inp = ctl.run_histories(ctx, hs, "c01", fresh=2)
    res = ctl.judge(ctx, out, "c01")
    # strict-host histories: one listed finding (F35), whatever the difference looks like
    events = ctl.report(ctx, res, out, inp, INVS, extra_sig=lambda s, e, h: (s.split(":")[0] + ":strict-host") if h["id"].startswith("st-") and e["step"] > 0 else s)
    states = [e for e in events if e["ev"] == "State"]
    nondet = sum(1 for e in states if len(set(e["fresh"])) > 1)
    if res["drift"]:
        ctx.notes.append("drift: the FullModel oracle disagrees with freshly started controllers at %d points (first %s); "
                         "verdicts rest on the fresh-controller comparison" % (len(res["drift"]), res["drift"][0]))
    sample = [dict(history=h["id"], batches=[[o["kind"] + ":" + o["name"] + (":del" if o.get("del") else ":" + str(o.get("tmpl")))
                                               for o in st["ops"]] for st in h["steps"]]) for h in hs[:2] + hs[-1:]]
    core.write_evidence(ctx, sample, extra=dict(
        histories=len(hs), tracker_call_sequences=ntrk, quiescent_points=len(states), core_points_checked_against_FullModel=sum(1 for e in states if e["core"]),
        partial_syncs=sum(1 for e in states if e["step"] > 0), nondeterministic_points_skipped=nondet,
        drift=bool(res["drift"]), drift_points=len(res["drift"]),
        bounds="TLC: 3 ingress slots x 12 templates, 2 services x 4 endpoint sets, 2 secrets x 4 values, <=3 events/batch, <=3 batches "
               "(simulated; thorough adds an exhaustive 2x2 slice); random: 5-7 batches over the extended vocabulary "
               "(30 annotation sets, basic-auth/CA secrets, global ConfigMap changes, default backend/certificate, shards 0/1/3)"),
        assumptions=["a freshly started controller over the same fake API server is the reference; HAProxy behaviour is compared through the "
                     "normal form of harness/cfgnf (slot names, empty slots, pathNN ids, auth-proxy ports canonicalised; unreachable "
                     "auth-proxy leftovers pruned: they are judged by C05)",
                     "events are delivered for every change the watchers' predicates accept; metadata.generation is bumped on spec changes"])
