"""C02 — the running HAProxy never diverges from the on-disk configuration after runtime updates."""
from . import dyn


def run(ctx):
    dyn.run_engine(ctx, dyn.C02_INVS)
