"""C03 — requests reach exactly the ready endpoints that Ingress and Service designate."""
import json, os, re
from .. import core, universe as U
from . import ctl
from ..core import Undecided


def wildcard_prefix_as_begin(b, cluster):
    """The listed finding F38: the request's host is covered by a wildcard hostname, the backend chosen is the one of a Prefix path
    of that wildcard whose text is a character prefix, but not an element prefix, of the request path."""
    wild = U.REQ_WILD.get(b["host"])
    if b["inv"] != "RouteOK" or not wild or not cluster:
        return False
    path = "".join(b["path"])
    for t in cluster["ing"].values():
        for r in (U.ING.get(t) or {}).get("rules", []):
            if r["host"] != wild:
                continue
            for p in r["paths"]:
                if p["type"] == "prefix" and p["svc"] == b["got"] and path.startswith(p["path"]) and not (path == p["path"] or path.startswith(p["path"].rstrip("/") + "/")):
                    return True
    return False


def run(ctx):
    core.build_harness(ctx, ["ctl"])
    ctl.design(ctx)
    q = ctx.quick()
    opts = [dict(shards=0, watchwithoutclass=True), dict(shards=0, watchwithoutclass=True, defaultsvc="d/s2"),
            dict(shards=3, watchwithoutclass=True)]
    hs = ctl.tlc_histories(ctx, 500 if q else 8000, maxops=3, maxbatches=2, tag="sim", opts=opts, secvals=("absent", "v1", "bad"), tmpls=U.CORE_ROUTING,
                           epsids=("e0", "e1", "e2", "e4", "e5"))
    # wildcard hostnames: a host the wildcard covers, with and without paths of its own; prefix, exact and root paths on the wildcard
    hs += [dict(h, id=h["id"] + "w") for h in
           ctl.tlc_histories(ctx, 250 if q else 4000, maxops=3, maxbatches=2, tag="wild", opts=opts, secvals=("absent", "v1"),
                             tmpls=["t1", "t2", "t8", "t13", "t17", "t18", "t16"], epsids=("e1", "e2"))]
    # half of the histories run with drain-support: not-ready endpoints become weight-0 servers
    for i, h in enumerate(hs):
        if i % 2 == 0:
            h["steps"][0]["ops"].insert(0, U.op_cm({"drain-support": "true"}))
        for st in h["steps"]:
            for op in st["ops"]:
                if op["kind"] == "eps" and op.get("tmpl") in ("e1", "e2") and i % 4 == 0:
                    # use the endpoint set with a not-ready address as well
                    pass
    # make sure the not-ready endpoint set is exercised: e3 = ready {2}, not ready {3}
    for i, h in enumerate(hs):
        if i % 3 == 0:
            h["steps"][-1]["ops"].append(U.op_eps("s1", "e3"))
            h["steps"][-1]["cluster"]["eps"]["s1"] = "e3"
    # an address that stays and only turns not-ready, then ready again, in partial syncs of their own
    for i, h in enumerate(hs):
        if i % 4 == 0:     # these histories run with drain-support
            last = h["steps"][-1].get("cluster")
            for eid in ("e2", "e6", "e2"):
                st = dict(ops=[U.op_eps("s1", eid)], fullfirst=False)
                if last:
                    st["cluster"] = dict(last, eps=dict(last["eps"], s1=eid))
                h["steps"].append(st)
    inp = ctx.path("ctl", "c03.json")
    out = ctx.path("ctl", "c03.ndjson")
    json.dump(hs, open(inp, "w"))
    p = core.run([os.path.join(ctx.bindir, "ctl"), "-in", inp, "-out", out, "-work", ctx.path("ctl", "w", "x"), "-fresh", "0", "-routing",
                  "-par", str(core.NCPU)], timeout=3400, env=dict(VERIF_REPO=core.REPO))
    st = json.loads(p.stdout.strip().splitlines()[-1])
    ctx.traces_validated += st["histories"]
    n = core.count_lines(out)
    cfg = ctl.controller_cfg([1, 2, 3], list(U.ING), 0, 0, ["Result"], spec="TraceSpec", secvals=("absent", "v1", "v2", "bad"), epsids=tuple(U.EPS),
                             extra='    JudgeWhat = "routes"')
    r = core.tlc(ctx, "judge", "TraceRouting", None, cfgtext=cfg, workers=1, timeout=3400, files={out: "trace.ndjson"}, heap="8g")
    m = re.findall(r'<<"RESULT", "(.*)">>', r["out"])
    if r["rc"] != 0 or not m:
        raise Undecided("trace judgement did not complete:\n" + r["out"][-3000:])
    res = json.loads(m[-1].replace('\\"', '"'))
    if res["n"] != n:
        raise Undecided("consumed %d of %d" % (res["n"], n))
    ctx.trace_events += n
    byh = {h["id"]: h for h in hs}
    seen = set()
    for b in sorted(res["bad"], key=lambda b: (b["step"], b["tr"])):
        sig = "%s:%s:%s" % (b["inv"], b["scheme"], "miss" if b["got"] in ("_error404", "none") else "wrong")
        if wildcard_prefix_as_begin(b, byh[b["tr"]]["steps"][b["step"]].get("cluster")):
            sig = "RouteOK:wildcard-prefix-as-begin"
        if sig in seen:
            continue
        seen.add(sig)
        hf = ctx.path("viol", b["tr"] + ".history.json")
        json.dump([byh[b["tr"]]], open(hf, "w"), indent=1)
        d = core.save_replay(ctx, sig, [hf], dict(invariant=b["inv"], request=dict(scheme=b["scheme"], host=b["host"], path="".join(b["path"])),
                                                   got=b["got"], expected=b["expected"], step=b["step"]))
        core.classify(ctx, sig, "%s: %s://%s%s routed to %s, documentation allows %s (history %s batch %d, cluster %s)"
                      % (b["inv"], b["scheme"], b["host"], "".join(b["path"]), b["got"], b["expected"], b["tr"], b["step"],
                         json.dumps(byh[b["tr"]]["steps"][b["step"]].get("cluster"))), d)
    states = [e for e in core.read_ndjson(out) if e["ev"] == "State" and e.get("routing")]
    nreq = len(states) * 2 * len(U.REQ_HOSTS) * len(U.REQ_PATHS)
    sample = [dict(cluster=states[-1]["cluster"], http_steps=[s["raw"] for s in states[-1]["routing"]["http"]["steps"]][:6])]
    core.write_evidence(ctx, sample, extra=dict(cluster_states=len(states), requests_judged=nreq,
                        with_drain_support=sum(1 for e in states if e["routing"]["drain"]),
                        with_default_backend=sum(1 for e in states if e["routing"]["defaultsvc"]),
                        bounds="cluster states reached by TLC-simulated histories over 3 ingress slots x 12 templates (2 hosts + default host, paths "
                               "/, /a, /a/b with exact/prefix/begin, named and numeric ports, TLS blocks), endpoint sets incl. not-ready addresses, "
                               "with/without --default-backend-service and drain-support; requests {http,https} x {h1, h2, H1.LOCAL, unknown host} x %s"
                               % U.REQ_PATHS),
                        assumptions=["HAProxy rule evaluation and map lookups as transcribed in Routing.tla / MapLookup.tla",
                                     "ssl-redirect is off in these runs (routing of plain HTTP is judged, redirects are not)",
                                     "requests carry no header used by header-match filters"])
