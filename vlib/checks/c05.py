"""C05 — the files on disk hold exactly the current model: nothing stale, nothing missing, nothing twice."""
import random
from .. import core, universe as U
from . import ctl, c01


def shard_histories(ctx, n):
    """Histories that mix partial and full resyncs (global ConfigMap / default certificate changes), empty shards,
    move the only changed backend between add and delete, and revert a change inside a batch."""
    rng = random.Random(ctx.seed * 104729 + 5)
    hs = []
    for i in range(n):
        shards = rng.choice([0, 1, 3, 3, 5])
        h = U.random_history(rng, "sh-%d" % i, steps=5 + rng.randrange(3), ext=rng.random() < 0.5, shards=shards)
        for st in h["steps"][1:]:
            r = rng.random()
            if r < 0.25:
                st["ops"].append(U.op_cm(rng.choice([{"timeout-client": "3%ds" % rng.randrange(9)}, {"max-connections": "30%d" % rng.randrange(9)}])))
            elif r < 0.4:
                # revert inside the batch: change endpoints and put them back
                st["ops"] += [U.op_eps("s1", "e4"), U.op_eps("s1", "e1")]
            elif r < 0.55:
                # every ingress goes away: all shards lose their backends
                st["ops"] += [U.op_del("ing", "d/i%d" % k) for k in (1, 2, 3)]
        c01_fix(h)
        hs.append(h)
    return hs


def c01_fix(h):
    for st in h["steps"]:
        for op in st["ops"]:
            ann = op.get("ann") or {}
            if "redirect-from" in ann:
                hosts = {r["host"] for r in op.get("rules", [])}
                if len(hosts) != 1 or op.get("def"):
                    del ann["redirect-from"]
                else:
                    ann["redirect-from"] = "old-%s" % sorted(hosts)[0]


def sig(base, e, h):
    # exact form differs while the behavioural form agrees: only unreachable auth-proxy leftovers differ
    if base.startswith("DiskIsModel"):
        return "DiskIsModel:server-slots:shards%d" % (1 if h["opt"].get("shards") else 0)
    if e["inc"] == e["fresh"][0] and all("_auth" in d.split(": ", 1)[0] for d in e["xdiff"]):
        return "DiskExact:auth-proxy-leftover"
    return base + ":shards%d" % (1 if h["opt"].get("shards") else 0)


BCFG = "SPECIFICATION %s\nCONSTANTS\n    MaxCalls = %d\n    ShardOf <- %s\nINVARIANTS\n    %s\nCHECK_DEADLOCK FALSE\n"


def backendset_conformance(ctx):
    """The bookkeeping that decides which shard files are rewritten: BackendSet.tla model-checked (ShardsCover under the
    controller's call protocol), TLC-proposed call sequences replayed on the real container of backends, its whole observable
    state compared after every call and ShardsCover evaluated on it at every Shrink (TraceBackendSet.tla)."""
    import json, os, re
    core.build_harness(ctx, ["chgx"])
    core.tlc_design(ctx, "design-backendset", "BackendSetMC", None, cfgtext=BCFG % ("Spec", 6 if ctx.quick() else 7, "GuessShard", "ShardsCover"),
                    workers=core.NCPU, timeout=2400)
    seqs, seen = [], set()
    for s in range(1 if ctx.quick() else 8):
        r = core.tlc(ctx, "gen-backendset-%d" % s, "BackendSetMC", None, cfgtext=BCFG % ("Spec", 12, "GuessShard", "Emit"), workers=1, timeout=900,
                     simulate="num=%d" % (300 if ctx.quick() else 1500), depth=16, extra=["-seed", str(ctx.seed * 10 + s)])
        if r["rc"] != 0:
            raise core.Undecided("backend container sequence generation failed:\n" + r["out"][-2000:])
        for t in re.findall(r'<<"BEHAVIOUR", "(.*)">>', r["out"]):
            t = json.loads('"' + t + '"')
            if t not in seen:
                seen.add(t)
                seqs.append(json.loads(t))
    if len(seqs) < 1000:
        raise core.Undecided("TLC proposed only %d call sequences for the backend container" % len(seqs))
    inp, out = ctx.path("bset", "in.json"), ctx.path("bset", "trace.ndjson")
    json.dump(seqs, open(inp, "w"))
    core.run([os.path.join(ctx.bindir, "chgx"), "-in", inp, "-out", out], timeout=900, env=dict(VERIF_REPO=core.REPO))
    n = core.count_lines(out)
    r = core.tlc(ctx, "judge-backendset", "TraceBackendSet", None, cfgtext=BCFG % ("TraceSpec", 0, "ShardOfT", "Result"), workers=1, timeout=1800,
                 files={out: "trace.ndjson"})
    m = re.findall(r'<<"RESULT", "(.*)">>', r["out"])
    if r["rc"] != 0 or not m:
        raise core.Undecided("backend container trace validation did not complete:\n" + r["out"][-2000:])
    res = json.loads(json.loads('"' + m[-1] + '"'))
    if res["n"] != n:
        raise core.Undecided("backend container trace validation consumed %d of %d lines" % (res["n"], n))
    ctx.trace_events += n
    ctx.traces_validated += len(seqs)
    if res["drift"]:
        ctx.notes.append("backend container: %d recorded states differ from BackendSet.tla (model drift, not a violation), first %s"
                         % (len(res["drift"]), res["drift"][0]))
    for b in sorted(res["bad"], key=lambda b: (b["call"], b["id"]))[:1]:
        sf = ctx.path("viol", b["id"] + ".backendset.json")
        json.dump([seqs[int(b["id"][1:])][:b["call"] + 1]], open(sf, "w"), indent=1)
        d = core.save_replay(ctx, "BackendSet:ShardsCover", [sf], dict(invariant="ShardsCover", changed=b["changed"], differ=b["differ"],
                                                                       how="harness/cmd/chgx -in <backendset.json>"))
        core.classify(ctx, "BackendSet:ShardsCover", "after call %d of sequence %s the backends %s differ from the committed state but only the shards %s "
                      "are flagged for rewriting: %s" % (b["call"], b["id"], b["differ"], b["changed"], json.dumps(seqs[int(b["id"][1:])][:b["call"] + 1])), d)
    return len(seqs)


def run(ctx):
    core.build_harness(ctx, ["ctl"])
    ctl.design(ctx)
    nbset = backendset_conformance(ctx)
    q = ctx.quick()
    opts = [dict(shards=s, watchwithoutclass=True) for s in (0, 1, 3)]
    hs = ctl.tlc_histories(ctx, 300 if q else 6000, maxops=3, maxbatches=3, tag="sim", opts=opts)
    hs += shard_histories(ctx, 350 if q else 8000)
    # tcp services: hostnames join and leave ports that are already written (SNI maps, tls binds)
    import random
    trng = random.Random(ctx.seed * 2147483647 + 5)
    hs += [U.random_tcp_history(trng, "tcp-%d" % i, steps=4 + trng.randrange(3)) for i in range(80 if q else 2000)]
    # a backend that is not re-parsed gets its free server slots topped up by a reload another backend asked for: its section
    # (its shard file) has to follow
    k = 0
    for sh in (0, 1, 3, 5):
        for (grow, other) in (("s1", 2), ("s2", 1)):
            for cause in ("ann", "new", "sec"):
                t1, t2 = ("t1", "t9") if grow == "s1" else ("t4", "t2")   # t1/t4 -> s1, t9/t2 -> s2
                first = U.base_ops() + [U.op_sec("c1", "crt:c1"), U.op_sec("c2", "crt:c2"), U.op_ing(1, t1), U.op_ing(2, t2)]
                if grow == "s1":
                    slot, tmpl = 2, t2
                else:
                    slot, tmpl = 1, t1
                force = dict(ann=[U.op_ing(slot, tmpl, {"balance-algorithm": "leastconn"})],
                             new=[U.op_ing(3, "t6" if grow == "s2" else "t3")],
                             sec=[U.op_sec("c2" if tmpl == "t9" else "c1", "bad")])[cause]
                steps = [dict(ops=first), dict(ops=[U.op_eps(grow, "e4")]), dict(ops=force), dict(ops=[U.op_eps(grow, "e1")]), dict(ops=[U.op_eps(grow, "e4")])]
                hs.append(dict(id="refill-%d" % k, opt=dict(shards=sh, watchwithoutclass=True), steps=steps))
                k += 1
    # nothing but the content of a secret changes (users of a userlist, a CA bundle): hosts and backends are re-parsed into equal
    # objects, the files that render the secret still follow
    for k, (sh, tmpl) in enumerate([(0, "t1"), (3, "t1"), (0, "t4"), (3, "t2")]):
        steps = [dict(ops=U.base_ops() + [U.op_sec("c1", "crt:c1"), U.op_sec("basic", "auth:usr:pwd"), U.op_sec("ca", "ca:ca1"),
                                          U.op_ing(1, tmpl, {"auth-secret": "basic", "auth-realm": "r"}),
                                          U.op_ing(2, "t9", {"auth-tls-secret": "ca", "auth-tls-verify-client": "on"})]),
                 dict(ops=[U.op_sec("basic", "auth:usr:other")]), dict(ops=[U.op_sec("ca", "ca:ca2")]),
                 dict(ops=[U.op_sec("basic", "auth:usr2:pwd")]), dict(ops=[U.op_sec("basic", "absent")]), dict(ops=[U.op_sec("basic", "auth:usr:pwd")])]
        hs.append(dict(id="seconly-%d" % k, opt=dict(shards=sh, watchwithoutclass=True), steps=steps))
    # only the host side of an Ingress changes (its server-alias) while its backend has paths with distinct configurations: the path-id
    # maps of the backend name the hosts and their aliases, they follow
    for k, sh in enumerate([0, 3, 0, 3]):
        a = dict(label="wl", rules=[U.R(U.H1, U.P("/", "s1"))])
        b = dict(label="pub", rules=[U.R(U.H2, U.P("/pub", "s1"))])
        wl = {"whitelist-source-range": "10.0.0.0/8"}
        walk = [dict(wl, **{"server-alias": "alias.local"}), dict(wl, **{"server-alias": "other.local"}), dict(wl), dict(wl, **{"server-alias-regex": "^al[a-z]+\\.local$"})]
        if k >= 2:
            walk = walk[::-1]
        steps = [dict(ops=U.base_ops() + [U.op_ing(1, a, dict(wl)), U.op_ing(2, b)])] + [dict(ops=[U.op_ing(1, a, w)]) for w in walk]
        hs.append(dict(id="alias-%d" % k, opt=dict(shards=sh, watchwithoutclass=True), steps=steps))
    # regression seed of the listed finding (auth-proxy leftovers), so that it is observed on every run
    hs.append(dict(id="seed-auth-leftover", opt=dict(shards=0, watchwithoutclass=True), steps=[
        dict(ops=U.base_ops() + [U.op_ing(1, "t1", {"auth-url": "http://10.0.0.9:8000/auth"})]),
        dict(ops=[U.op_ing(1, "t1")])]))
    out, inp = ctl.run_histories(ctx, hs, "c05", fresh=1)
    res = ctl.judge(ctx, out, "c05")
    # report with the exact difference
    evs = core.read_ndjson(out)
    for e in evs:
        if e["ev"] == "State":
            e["diff"] = e["xdiff"]
    core.write_ndjson(out, evs)
    events = ctl.report(ctx, res, out, inp, {"DiskExact", "DiskIsModel"}, extra_sig=sig)
    states = [e for e in events if e["ev"] == "State"]
    sample = [dict(history=h["id"], shards=h["opt"].get("shards"), batches=[[o["kind"] + ":" + o["name"] for o in st["ops"]] for st in h["steps"]])
              for h in hs[-2:]]
    core.write_evidence(ctx, sample, extra=dict(
        histories=len(hs), quiescent_points=len(states),
        by_shards={str(s): sum(1 for h in hs if h["opt"].get("shards", 0) == s) for s in (0, 1, 3, 5)},
        full_resyncs=sum(1 for h in hs for st in h["steps"][1:] if any(o["kind"] == "cm" for o in st["ops"])),
        bounds="shard counts 0/1/3/5; TLC-simulated core histories + random histories with global ConfigMap changes (full resync), "
               "reverted changes inside a batch and batches that delete every ingress (emptied shards)"),
        assumptions=["every *.cfg of the configuration directory and every map/crt-list file they reference count as loaded; "
                     "map files that nothing refers to do not", "reference: a freshly started controller with the same shard count"])
