"""C06 — the same cluster state gives the same behaviour, whatever the processing order."""
import random, copy
from .. import core, universe as U
from . import ctl

CONFLICT_ANN = [
    {"redirect-from": "old.local"}, {"server-alias": "alias.local"}, {"balance-algorithm": "leastconn"},
    {"balance-algorithm": "first"}, {"timeout-server": "11s"}, {"timeout-server": "12s"}, {"auth-url": "http://10.0.0.9:8000/auth"},
    {"auth-url": "http://10.0.0.8:8000/auth"}, {"auth-url": "svc://auth:8080/x"}, {"auth-url": "https://10.0.0.9:8000/auth"}, {"auth-url": "https://10.0.0.9:8000/other"}, {"oauth": "oauth2_proxy"}, {"ssl-redirect": "true"},
    {"app-root": "/a"}, {"app-root": "/b"}, {"cert-signer": "acme"}, {"auth-tls-secret": "ca"}, {"maxconn-server": "5"}, {"maxconn-server": "6"},
    {"affinity": "cookie"}, {"session-cookie-name": "X"}, {"hsts-max-age": "10"}, {"hsts-max-age": "20"}, {"ssl-passthrough": "true"},
    {"ssl-passthrough": "true", "ssl-passthrough-http-port": "8080"}, {"secure-backends": "true"}, {"backend-protocol": "h2"},
]


def conflict_histories(ctx, n):
    """Cluster states rich in conflicts: several ingresses per host with disagreeing annotations, duplicated paths,
    shared backends, the same redirect-from / alias on two hosts, several auth backends."""
    rng = random.Random(ctx.seed * 15485863 + 6)
    hs = []
    for i in range(n):
        ops = U.base_ops() + [U.op_svc("auth"), U.op_eps("auth", "e1"), U.op_sec("ca", "ca:ca1"), U.op_sec("c1", "crt:c1"), U.op_sec("c2", "crt:c2")]
        for slot in (1, 2, 3):
            if rng.random() < 0.85:
                ann = {}
                for _ in range(rng.randrange(3)):
                    ann.update(rng.choice(CONFLICT_ANN))
                t = rng.choice(list(U.ING) + ["oauth"]) if rng.random() < 0.9 else U.EXT_ING[rng.choice(list(U.EXT_ING))]
                if t == "oauth":
                    t = dict(label="oauth", rules=[U.R(rng.choice([U.H1, U.H2]), U.P("/oauth2", rng.choice(["s1", "s2"])), U.P("/", "s1"))])
                op = U.op_ing(slot, t, ann)
                if rng.random() < 0.3:
                    op["created"] = 1       # equal creation time: the name decides
                ops.append(op)
        if rng.random() < 0.35:
            # the same ingress name in two namespaces, created at the same instant, declaring the same host and path
            ops += [U.op_svc("s1", ns="e"), U.op_svc("s2", ns="e"), U.op_eps("s1", "e1", ns="e"), U.op_eps("s2", "e2", ns="e")]
            t1, t2 = rng.sample(["t1", "t3", "t7", "t4", "t9"], 2)
            # ... or names whose order disagrees with the order of their namespaces (the tie-break is namespace/name as one string)
            na, nb = ("same", "same") if rng.random() < 0.5 else ("zz", "aa")
            a = U.op_ing(1, t1, dict(rng.choice(CONFLICT_ANN)), name=na, ns="d")
            b = U.op_ing(1, t2, dict(rng.choice(CONFLICT_ANN)), name=nb, ns="e")
            ops += rng.choice([[a, b], [b, a]])
        h = dict(id="cf-%d" % i, opt=dict(shards=0, watchwithoutclass=True), steps=[dict(ops=ops, fullfirst=False)])
        # a second, incremental step that reaches a conflict state through a permuted batch
        ops2 = []
        for slot in (1, 2, 3):
            if rng.random() < 0.5:
                ann = dict(rng.choice(CONFLICT_ANN))
                ops2.append(U.op_ing(slot, rng.choice(list(U.ING)), ann))
        if ops2:
            h["steps"].append(dict(ops=ops2, fullfirst=rng.random() < 0.5, shuffle=rng.randrange(1, 1 << 30)))
        hs.append(h)
    return hs


def sig(base, e, h):
    d = e["fdiff"]
    if d and all("redir_from" in x or "redirdest" in x for x in d):
        return "Deterministic:redirect-from-on-two-hosts"
    return base


def run(ctx):
    core.build_harness(ctx, ["ctl"])
    ctl.design(ctx)
    q = ctx.quick()
    hs = ctl.tlc_histories(ctx, 120 if q else 3000, maxops=3, maxbatches=2, tag="sim")
    hs += conflict_histories(ctx, 200 if q else 5000)
    # two applications of one namespace, each with its own oauth2_proxy under /oauth2 (F37)
    for i in range(4):
        a = dict(label="oa", rules=[U.R(U.H1, U.P("/oauth2", "s1"), U.P("/", "s1"))])
        b = dict(label="ob", rules=[U.R(U.H2, U.P("/oauth2", "s2"), U.P("/", "s2"))])
        ops = U.base_ops() + [U.op_ing(1, a, {"oauth": "oauth2_proxy"}), U.op_ing(2, b, {"oauth": "oauth2_proxy"})]
        hs.append(dict(id="oauth-two-%d" % i, opt=dict(shards=0, watchwithoutclass=True), steps=[dict(ops=ops)]))
    # regression seeds of the listed finding (same redirect-from on two hosts), so that it is observed on every run
    for i in range(6):
        ops = U.base_ops() + [U.op_ing(1, "t1", {"redirect-from": "old.local"}), U.op_ing(2, "t4", {"redirect-from": "old.local"})]
        hs.append(dict(id="seed-redirect-%d" % i, opt=dict(shards=0, watchwithoutclass=True), steps=[dict(ops=ops)]))
    out, inp = ctl.run_histories(ctx, hs, "c06", fresh=5 if q else 9)
    res = ctl.judge(ctx, out, "c06")
    events = ctl.report(ctx, res, out, inp, {"Deterministic"}, extra_sig=sig)
    # Gateway API: conflicting routes and rules with several annotated Services, lists returned in different orders
    from . import c10
    import json
    gwbad, gwrecs, gwhs = c10.gateway_determinism(ctx, 3 if q else 6)
    seen = set()
    for b in sorted(gwbad, key=lambda b: (b["step"], b["id"])):
        rec = gwrecs[(b["id"], b["step"])]
        gsig = "Deterministic:gateway:%s" % ctl.diff_class(rec["detdiff"])
        if gsig in seen:
            continue
        seen.add(gsig)
        hf = ctx.path("viol", "%s.worlds.json" % b["id"])
        json.dump([gwhs[int(b["id"][1:])][:b["step"] + 1]], open(hf, "w"), indent=1)
        d = core.save_replay(ctx, gsig, [hf], dict(invariant="Deterministic", world=rec["w"], diff=rec["detdiff"],
                                                   how="harness/cmd/gwx -fresh N -in <worlds.json>"))
        core.classify(ctx, gsig, "Deterministic (Gateway API): world %s step %d is configured differently when the API lists its objects in another order: %s; routes %s"
                      % (b["id"], b["step"], "; ".join(rec["detdiff"])[:400], json.dumps(rec["w"]["rt"])), d)
    ctx.traces_validated += len(gwhs)
    states = [e for e in events if e["ev"] == "State"]
    sample = [dict(history=h["id"], ingresses=[(o["name"], o.get("tmpl"), {k: v for k, v in (o.get("ann") or {}).items() if k != "ssl-redirect"})
                                               for o in h["steps"][0]["ops"] if o["kind"] == "ing"]) for h in hs[-2:]]
    core.write_evidence(ctx, sample, extra=dict(
        cluster_states=len(states), fresh_controllers_per_state=5 if q else 9,
        controller_runs=len(states) * (1 + (5 if q else 9)), gateway_worlds=len(gwrecs), gateway_controllers_per_world=1 + (3 if q else 6),
        bounds="each cluster state is configured by one incremental controller (permuted batch order) and 5 (thorough 9) freshly started "
               "controllers, one with the API's order and the others with shuffled List results and shuffled initial events; Go map "
               "iteration is re-randomised by every range statement of every run"),
        assumptions=["determinism is judged on the behavioural normal form (slot names, pathNN ids, auth-proxy ports canonicalised)"])
