"""C07 — every generated configuration is loadable: references resolve, names are unique."""
import random
from .. import core, universe as U
from . import ctl, c05, c06


def targeted(ctx, n):
    """Services without endpoints, missing services/secrets, ssl-passthrough, basic/external/oauth auth, tcp services,
    strict-host, absent default backend, last user of a userlist removed in a partial sync."""
    rng = random.Random(ctx.seed * 32452843 + 7)
    hs = []
    anns = [{"ssl-passthrough": "true"}, {"auth-secret": "basic"}, {"auth-secret": "missing"}, {"auth-url": "http://10.0.0.9:8000/auth"},
            {"auth-url": "svc://auth:8080/x"}, {"auth-url": "svc://nosuch:8080/x"}, {"auth-url": "http://10.0.0.8:8000/a"},
            {"auth-url": "http://10.0.0.7:8000/a"}, {"auth-url": "svc://auth2:8080/x"}, {"oauth": "oauth2_proxy"},
            {"ssl-passthrough": "true", "ssl-passthrough-http-port": "80"}, {"ssl-passthrough": "true", "ssl-passthrough-http-port": "8080"},
            {"ssl-passthrough": "true", "ssl-passthrough-http-port": "9999"}, {"ssl-passthrough": "true", "ssl-passthrough-http-port": "http"},
            {"auth-tls-secret": "ca"}, {"auth-tls-secret": "missing"}, {"secure-backends": "true", "secure-crt-secret": "c1"},
            {"secure-verify-ca-secret": "ca"}, {"blue-green-deploy": "group=blue=1,group=green=2"}, {"affinity": "cookie"},
            {"assign-backend-server-id": "true"}, {"backend-server-naming": "pod"}, {"backend-server-naming": "ip"},
            {"waf": "modsecurity"}, {"redirect-to": "https://x.local"}, {"server-alias-regex": "^a.*\\\\.local$"}, {"cors-enable": "true"},
            {"whitelist-source-range": "10.0.0.0/8,192.168.0.0/16"}, {"limit-connections": "5"}, {"use-resolver": "kube"}]
    for i in range(n):
        h = U.random_history(rng, "wf-%d" % i, steps=4 + rng.randrange(3), ext=True, shards=rng.choice([0, 0, 3]))
        if rng.random() < 0.5:
            h["opt"]["defaultsvc"] = rng.choice(["d/s2", "d/nosuch"])
        for st in h["steps"]:
            for op in st["ops"]:
                if op["kind"] == "ing" and not op.get("del") and rng.random() < 0.7:
                    op.setdefault("ann", {}).update(rng.choice(anns))
            if rng.random() < 0.2:
                st["ops"].append(U.op_sec("basic", rng.choice(["absent", "auth:usr:pwd", "empty"])))
            if rng.random() < 0.15:
                st["ops"].append(U.op_eps(rng.choice(["s1", "s2"]), "e0"))
        c05.c01_fix(h)
        hs.append(h)
    # strict-host: where the added root path points when the default host's own root is a backend, a redirect, or is missing
    k = 0
    for dsvc in (None, "d/s2", "d/nosuch"):
        for root in (None, {}, {"redirect-to": "https://x.local"}, {"ssl-passthrough": "true"}):
            for other in ("t2", "t5", "t6"):
                ops = U.base_ops() + [U.op_sec("c2", "crt:c2"), U.op_cm({"strict-host": "true"}), U.op_ing(1, other)]
                if root is not None:
                    ops.append(U.op_ing(2, "t8", dict(root)))
                steps = [dict(ops=ops), dict(ops=[U.op_ing(3, "t4")]), dict(ops=[U.op_del("ing", "d/i2")]), dict(ops=[U.op_ing(2, "t8", {"redirect-to": "https://y.local"})])]
                hs.append(dict(id="strict-%d" % k, opt=dict(shards=0, watchwithoutclass=True, **({"defaultsvc": dsvc} if dsvc else {})), steps=steps))
                k += 1
    # auth-proxy churn: several auth targets, the services behind them change, new targets arrive later
    urls = ["svc://auth:8080/x", "svc://auth2:8080/x", "http://10.0.0.8:8000/a", "http://10.0.0.7:8000/a", "http://10.0.0.6:8000/a"]
    for i in range(n // 3):
        first = U.base_ops() + [U.op_svc("auth"), U.op_eps("auth", "e1"), U.op_svc("auth2"), U.op_eps("auth2", "e2"),
                                U.op_sec("basic", "auth:usr:pwd")]
        steps = [dict(ops=first + [U.op_ing(1, "t1", {"auth-url": rng.choice(urls)}), U.op_ing(2, "t9", {"auth-url": rng.choice(urls)})])]
        for k in range(3 + rng.randrange(3)):
            r = rng.random()
            if r < 0.35:
                ops = [U.op_eps(rng.choice(["auth", "auth2"]), rng.choice(["e1", "e2", "e4"]))]
            elif r < 0.5:
                ops = [U.op_svc(rng.choice(["auth", "auth2"]), ann={"maxconn-server": str(rng.randrange(9))})]
            elif r < 0.85:
                ops = [U.op_ing(rng.choice([1, 2, 3]), rng.choice(["t1", "t9", "t2", "t12"]), {"auth-url": rng.choice(urls)})]
            else:
                ops = [U.op_del("ing", "d/i%d" % rng.choice([1, 2, 3]))]
            steps.append(dict(ops=ops))
        hs.append(dict(id="ap-%d" % i, opt=dict(shards=0, watchwithoutclass=True), steps=steps))
    # one basic-auth secret shared by unrelated backends, then the secret goes away or loses its content
    for i in range(n // 4):
        a, b = rng.sample([("t1", 1), ("t9", 2), ("t2", 3), ("t12", 2)], 2)
        steps = [dict(ops=U.base_ops() + [U.op_sec("basic", "auth:usr:pwd"), U.op_ing(a[1], a[0], {"auth-secret": "basic"})]),
                 dict(ops=[U.op_ing(b[1] if b[1] != a[1] else 3, b[0], {"auth-secret": "basic"})]),
                 dict(ops=[U.op_sec("basic", rng.choice(["absent", "empty", "auth:other:pwd"]))]),
                 dict(ops=[U.op_eps("s1", "e2")])]
        hs.append(dict(id="ul-%d" % i, opt=dict(shards=0, watchwithoutclass=True), steps=steps))
    return hs


def run(ctx):
    core.build_harness(ctx, ["ctl"])
    ctl.design(ctx)
    q = ctx.quick()
    hs = ctl.tlc_histories(ctx, 150 if q else 4000, maxops=3, maxbatches=3, tag="sim",
                           opts=[dict(shards=0, watchwithoutclass=True), dict(shards=3, watchwithoutclass=True)])
    hs += targeted(ctx, 300 if q else 8000)
    hs += c06.conflict_histories(ctx, 60 if q else 1500)
    out, inp = ctl.run_histories(ctx, hs, "c07", fresh=1, facts=True)
    res = ctl.judge(ctx, out, "c07")
    mine = {b["inv"] for b in res["bad"] if b["inv"].startswith("WellFormed")}
    events = ctl.report(ctx, res, out, inp, mine, extra_sig=lambda s, e, h: s.split(":")[0] + ":" + s.split(":")[1] + (":strict-host" if h["id"].startswith("strict-") and e["step"] > 0 else ""))
    states = [e for e in events if e["ev"] == "State"]
    nrefs = sum(len(e["facts"]["backendrefs"]) for e in states if e.get("facts"))
    sample = [dict(history=states[-1]["tr"], defs=states[-1]["facts"]["defs"][:12], backendrefs=states[-1]["facts"]["backendrefs"][:6])]
    core.write_evidence(ctx, sample, extra=dict(
        configurations_checked=2 * len(states), histories=len(hs), backend_references_resolved=nrefs,
        bounds="every configuration written by an incremental controller after each batch and by a fresh controller for the same cluster "
               "state: sections, use_backend/default_backend/backend-valued map entries, userlists, map/crt-list/certificate files, "
               "server names and ids, path ids, auth-proxy ports"),
        assumptions=["HAProxy's loader rules for references are the predicate HAConfig!WellFormed; the parser harness/cfgnf is trusted",
                     "syntax of individual directives is not checked (no HAProxy binary in the sandbox)"])
