"""C08 — only Ingresses classified for this controller are ever configured."""
import json, os, re
from .. import core
from ..core import Undecided

CFG = "SPECIFICATION %s\nINVARIANTS\n    %s\nCHECK_DEADLOCK FALSE\n"


def run(ctx):
    core.build_harness(ctx, ["classx"])
    r = core.tlc(ctx, "gen", "ClassSelect", None, cfgtext=CFG % ("Spec", "Emit"), workers=1, timeout=900)
    if r["rc"] != 0:
        raise Undecided("enumeration failed:\n" + r["out"][-2000:])
    ctx.tlc_stats.append(dict(name="enumerate", module="ClassSelect", cfg="64 rows and all transitions under fixed flags", generated=r["generated"],
                              distinct=r["distinct"], depth=r["depth"], wall_s=round(r["wall"], 1), violated=None))
    ts = core.behaviours_from_print(r["out"])
    if len(ts) != 1024:
        raise Undecided("expected 1024 transitions (16 x 16 x 4 flag settings), TLC printed %d" % len(ts))
    inp = ctx.path("c", "in.json")
    out = ctx.path("c", "trace.ndjson")
    json.dump(ts, open(inp, "w"))
    core.run([os.path.join(ctx.bindir, "classx"), "-in", inp, "-out", out, "-work", ctx.path("c", "w", "x")], timeout=1800,
             env=dict(VERIF_REPO=core.REPO))
    n = core.count_lines(out)
    r = core.tlc(ctx, "judge", "TraceClassSelect", None, cfgtext=CFG % ("TraceSpec", "Result"), workers=1, timeout=1800,
                 files={out: "trace.ndjson"})
    m = re.findall(r'<<"RESULT", "(.*)">>', r["out"])
    if r["rc"] != 0 or not m:
        raise Undecided("trace judgement did not complete:\n" + r["out"][-3000:])
    res = json.loads(m[-1].replace('\\"', '"'))
    if res["n"] != n:
        raise Undecided("consumed %d of %d" % (res["n"], n))
    ctx.trace_events += n
    ctx.traces_validated += n
    recs = {x["id"]: x for x in core.read_ndjson(out)}
    seen = set()
    for b in sorted(res["bad"], key=lambda b: b["id"]):
        x = recs[b["id"]]
        sig = "%s:%s" % (b["inv"], b["kind"])
        if b["kind"] == "class":
            sig += ":%s->%s" % (x["from"]["cls"], x["to"]["cls"])
        if sig in seen:
            continue
        seen.add(sig)
        rf = ctx.path("viol", b["id"] + ".json")
        json.dump(x, open(rf, "w"), indent=1)
        d = core.save_replay(ctx, sig, [rf], dict(invariant=b["inv"], case=x))
        core.classify(ctx, sig, "%s: from %s to %s: valid %s->%s listed=%s delivery=%s configured=%s fresh=%s"
                      % (b["inv"], x["from"], x["to"], x["validfrom"], x["validto"], x["listed"], x["delivery"], x["configured"], x["freshconfigured"]), d)
    kinds = {}
    for x in recs.values():
        kinds[x["kind"]] = kinds.get(x["kind"], 0) + 1
    core.write_evidence(ctx, [recs["t0"], recs["t100"]], extra=dict(
        rows=48, transitions=len(ts), by_kind=kinds, exhaustive=True,
        bounds="all 48 combinations of {annotation absent/ours/foreign} x {ingressClassName absent/ours/foreign/dangling} x watch-without-class x "
               "class-precedence and all 576 transitions between combinations under the same flags (Ingress object changed, or only the "
               "IngressClass object created / deleted / re-assigned)"),
        assumptions=["the legacy controller's copy of the decision (pkg/controller/legacy) is not covered: it cannot be constructed without a cluster"])
