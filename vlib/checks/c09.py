"""C09 — cross-namespace isolation: foreign Secrets/Services cannot influence a configuration."""
import json, os, re
from .. import core
from ..core import Undecided

CFG = "SPECIFICATION %s\nINVARIANTS\n    %s\nCHECK_DEADLOCK FALSE\n"


def run(ctx):
    core.build_harness(ctx, ["isox"])
    r = core.tlc(ctx, "gen", "Isolation", None, cfgtext=CFG % ("Spec", "Emit"), workers=1, timeout=900)
    if r["rc"] != 0:
        raise Undecided("enumeration failed:\n" + r["out"][-2000:])
    ctx.tlc_stats.append(dict(name="enumerate", module="Isolation", cfg="sites x forms x 2^4 settings x static x exposure", generated=r["generated"],
                              distinct=r["distinct"], depth=r["depth"], wall_s=round(r["wall"], 1), violated=None))
    cases = core.behaviours_from_print(r["out"])
    if len(cases) < 4000:
        raise Undecided("TLC printed only %d cases" % len(cases))
    if ctx.quick():
        ctx.rng.shuffle(cases)
        keep, seen = [], set()
        for c in cases:   # every (site, form, exposure, permitted-relevant flag) at least a few times
            k = (c["site"], c["form"], c["exposure"], c["static"], c["crt"], c["services"], c["prev"], c["ca"])
            if k in seen and len(keep) > 900:
                continue
            seen.add(k)
            keep.append(c)
        cases = keep
    inp = ctx.path("i", "in.json")
    out = ctx.path("i", "trace.ndjson")
    json.dump(cases, open(inp, "w"))
    core.run([os.path.join(ctx.bindir, "isox"), "-in", inp, "-out", out, "-work", ctx.path("i", "w", "x")], timeout=3000, env=dict(VERIF_REPO=core.REPO))
    n = core.count_lines(out)
    r = core.tlc(ctx, "judge", "TraceIsolation", None, cfgtext=CFG % ("TraceSpec", "Result"), workers=1, timeout=3000, files={out: "trace.ndjson"})
    m = re.findall(r'<<"RESULT", "(.*)">>', r["out"])
    if r["rc"] != 0 or not m:
        raise Undecided("trace judgement did not complete:\n" + r["out"][-3000:])
    res = json.loads(m[-1].replace('\\"', '"'))
    if res["n"] != n:
        raise Undecided("consumed %d of %d" % (res["n"], n))
    ctx.trace_events += n
    ctx.traces_validated += 2 * n
    recs = {x["id"]: x for x in core.read_ndjson(out)}
    # sanity of the experiment: for every (site, form) the controller honours, some permitted reference must make a difference
    dead = sorted((v["site"], v["form"]) for v in res["dead"])
    if dead and not res["bad"]:
        raise Undecided("no allowed cross-namespace reference made a difference for %s: the experiment proves nothing there" % dead)
    if res["vacuous"]:
        ctx.notes.append("%d permitted references made no difference (refused although allowed: stricter than required, not a violation), e.g. %s"
                         % (len(res["vacuous"]), json.dumps(recs[sorted(res["vacuous"], key=lambda v: v["id"])[0]["id"]]["cs"])))
    seen = set()
    for b in sorted(res["bad"], key=lambda b: b["id"]):
        c = b["cs"]
        sig = "Isolated:%s:%s%s" % (c["site"], c["exposure"], ":after-allow" if c["prev"] == "allow" and not any(
            x["cs"]["prev"] == "none" and x["cs"]["site"] == c["site"] and x["cs"]["exposure"] == c["exposure"] for x in res["bad"]) else "")
        if sig in seen:
            continue
        seen.add(sig)
        rf = ctx.path("viol", b["id"] + ".json")
        json.dump(recs[b["id"]], open(rf, "w"), indent=1)
        d = core.save_replay(ctx, sig, [rf], dict(invariant="Isolated", case=c))
        core.classify(ctx, sig, "Isolated: with %s the configuration of namespace a depends on the foreign object of namespace b although the "
                      "reference is not permitted: %s" % (c, "; ".join(recs[b["id"]]["diff"])[:400]), d)
    denied = sum(1 for x in recs.values() if x["same"])
    core.write_evidence(ctx, [recs["c0"]], extra=dict(cases=n, world_pairs=n, pairs_without_influence=denied, pairs_with_influence=n - denied,
                        exhaustive=not ctx.quick(),
                        bounds="sites {spec.tls secretName, auth-tls-secret, secure-crt-secret, secure-verify-ca-secret, auth-secret, auth-url svc://, Gateway "
                               "certificateRefs} x forms {b/name, secret://b/name, certificateRef namespace} x the four cross-namespace keys in {allow, deny} (crt "
                               "also an invalid value) x --allow-cross-namespace x {foreign object unused, also used by an Ingress of its own namespace} x "
                               "{settings from the start, settings replacing a reconciled all-allow state, allow and the settings again within one batch}"),
                        assumptions=["influence is measured on the exact normal form of the written configuration: reference to an existing foreign object vs "
                                     "reference to a name that does not exist", "the namespace field of a Gateway certificateRef is documented as not implemented: only the no-influence side is judged for it"])
