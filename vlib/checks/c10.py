"""C10 — Gateway API routes attach only where class, listener and namespace rules allow."""
import json, os, re
from .. import core
from ..core import Undecided

GEN = "SPECIFICATION Spec\nCONSTANTS\n    MaxSteps = %d\n    MaxMut = %d\n    Mode = \"%s\"\nINVARIANTS\n    %s\nCHECK_DEADLOCK FALSE\n"
JUDGE = "SPECIFICATION TraceSpec\nCONSTANTS\n    MaxSteps = 0\n    MaxMut = 0\n    Mode = \"walk\"\nINVARIANTS\n    Result\nCHECK_DEADLOCK FALSE\n"


def worlds(ctx, mode):
    r = core.tlc(ctx, "gen-" + mode, "GatewayAdmission", None, cfgtext=GEN % (1, 0, mode, "RulesOK\n    Emit"), workers=1, timeout=900)
    if r["rc"] != 0:
        raise Undecided("enumeration failed:\n" + r["out"][-2000:])
    ctx.tlc_stats.append(dict(name="enumerate-" + mode, module="GatewayAdmission", cfg="Mode=%s (exhaustive factor of the admission conjunction)" % mode,
                              generated=r["generated"], distinct=r["distinct"], depth=r["depth"], wall_s=round(r["wall"], 1), violated=None))
    return core.behaviours_from_print(r["out"])


def walks(ctx, n, steps, mut, seed):
    r = core.tlc(ctx, "gen-walk-%d" % seed, "GatewayAdmission", None, cfgtext=GEN % (steps, mut, "walk", "RulesOK\n    Emit"), workers=1, timeout=1800,
                 simulate="num=%d" % n, depth=steps * (mut + 3) + 2, extra=["-seed", str(seed)])
    if r["rc"] != 0:
        raise Undecided("history generation failed:\n" + r["out"][-2000:])
    seen, hs = set(), []
    for b in core.behaviours_from_print(r["out"]):
        k = json.dumps(b, sort_keys=True)
        if k not in seen:
            seen.add(k)
            hs.append(b)
    return hs


def sig_of(b, rec):
    w = rec["w"]
    m = re.search(r"k \|-> (\d), i \|-> (\d)|i \|-> (\d), k \|-> (\d)", b["d"])
    s = b["inv"]
    if m:
        k, i = (int(m.group(1)), int(m.group(2))) if m.group(1) else (int(m.group(4)), int(m.group(3)))
        l, rt = w["l"][i - 1], w["rt"][k - 1]
        s += ":class=%s:from=%s:kinds=%s:%s" % (w["class"], l["from"], l["kinds"], rt["kind"])
    return s


def gateway_determinism(ctx, fresh):
    """For C06: conflicting routes and multi-backendRef rules, each world configured by 1 + fresh controllers that see the
    lists of the API in different orders; returns the Deterministic verdicts of TraceGateway and the number of worlds."""
    core.build_harness(ctx, ["gwx"])
    hs = [[h[0]] for h in worlds(ctx, "conflict")]
    if ctx.quick():
        ctx.rng.shuffle(hs)
        hs = hs[:1500]
    hs += walks(ctx, 100 if ctx.quick() else 1500, 4, 3, ctx.seed * 100 + 77)
    inp = ctx.path("g6", "in.json")
    out = ctx.path("g6", "trace.ndjson")
    json.dump(hs, open(inp, "w"))
    core.run([os.path.join(ctx.bindir, "gwx"), "-in", inp, "-out", out, "-work", ctx.path("g6", "w", "x"), "-par", str(core.NCPU),
              "-seed", str(ctx.seed), "-fresh", str(fresh)], timeout=3000, env=dict(VERIF_REPO=core.REPO))
    n = core.count_lines(out)
    r = core.tlc(ctx, "judge-gw-det", "TraceGateway", None, cfgtext=JUDGE, workers=1, timeout=3000, files={out: "trace.ndjson"}, heap="8g")
    m = re.findall(r'<<"RESULT", "(.*)">>', r["out"])
    if r["rc"] != 0 or not m:
        raise Undecided("trace judgement did not complete:\n" + r["out"][-3000:])
    res = json.loads(json.loads('"' + m[-1] + '"'))
    if res["n"] != n:
        raise Undecided("consumed %d of %d" % (res["n"], n))
    ctx.trace_events += n
    recs = {(x["id"], x["step"]): x for x in core.read_ndjson(out)}
    return [b for b in res["bad"] if b["inv"] == "Deterministic"], recs, hs


def run(ctx):
    core.build_harness(ctx, ["gwx"])
    q = ctx.quick()
    hs = [[h[0]] for h in worlds(ctx, "resolve")] + [[h[0]] for h in worlds(ctx, "listener")] + [[h[0]] for h in worlds(ctx, "conflict")] + [[h[0]] for h in worlds(ctx, "sections")]
    nfac = len(hs)
    if nfac < 12000:
        raise Undecided("TLC enumerated only %d factor worlds" % nfac)
    for s in range(1 if q else 4):
        hs += walks(ctx, 150 if q else 500, 4 if q else 6, 3 if q else 4, ctx.seed * 100 + s)
    inp = ctx.path("g", "in.json")
    out = ctx.path("g", "trace.ndjson")
    json.dump(hs, open(inp, "w"))
    core.run([os.path.join(ctx.bindir, "gwx"), "-in", inp, "-out", out, "-work", ctx.path("g", "w", "x"), "-par", str(core.NCPU), "-seed", str(ctx.seed)],
             timeout=3000, env=dict(VERIF_REPO=core.REPO))
    n = core.count_lines(out)
    r = core.tlc(ctx, "judge", "TraceGateway", None, cfgtext=JUDGE, workers=1, timeout=3000, files={out: "trace.ndjson"}, heap="8g")
    m = re.findall(r'<<"RESULT", "(.*)">>', r["out"])
    if r["rc"] != 0 or not m:
        raise Undecided("trace judgement did not complete:\n" + r["out"][-3000:])
    res = json.loads(json.loads('"' + m[-1] + '"'))
    if res["n"] != n:
        raise Undecided("consumed %d of %d" % (res["n"], n))
    ctx.trace_events += n
    ctx.traces_validated += len(hs)
    st = res["stat"]
    if min(st["adm"], st["rej"], st["tcpadm"], st["weighted"]) < 200 or st["conflict"] < 20:
        raise Undecided("too few judged pairs (%s): the run proves nothing" % st)
    recs = {(x["id"], x["step"]): x for x in core.read_ndjson(out)}
    seen = set()
    for b in sorted((b for b in res["bad"] if b["inv"] != "Deterministic"), key=lambda b: (b["step"], b["id"], b["inv"])):
        rec = recs[(b["id"], b["step"])]
        sig = sig_of(b, rec)
        if sig in seen:
            continue
        seen.add(sig)
        hid = int(b["id"][1:])
        hf = ctx.path("viol", "%s.worlds.json" % b["id"])
        json.dump([hs[hid][:b["step"] + 1]], open(hf, "w"), indent=1)
        tf = ctx.path("viol", "%s.trace.ndjson" % b["id"])
        core.write_ndjson(tf, [recs[(b["id"], s)] for s in range(b["step"] + 1)])
        d = core.save_replay(ctx, sig, [hf, tf], dict(invariant=b["inv"], detail=b["d"], world=rec["w"], observed=rec["obs"],
                                                      how="harness/cmd/gwx -in <worlds.json>; judged by spec/TraceGateway.tla"))
        core.classify(ctx, sig, "%s (%s) in world %s step %d: class=%s listeners=%s routes=%s observed=%s"
                      % (b["inv"], b["d"], b["id"], b["step"], rec["w"]["class"], json.dumps(rec["w"]["l"]), json.dumps(rec["w"]["rt"]),
                         json.dumps(rec["obs"])[:300]), d)
    core.write_evidence(ctx, [recs[("h0", 0)]], extra=dict(worlds=n, factor_worlds=nfac, histories=len(hs), judged=st, exhaustive_factors=True,
                        bounds="gateway resolution factor: 4 class situations x route kind x route ns x parentRef name {gw, foreign-class gw, missing} x "
                               "namespace {nil, g, r, x} x kind {nil, Gateway, Service} x group {nil, gateway group, other} (1296 worlds); listener factor: "
                               "ns labels x protocol x kinds {empty, HTTPRoute, TCPRoute, other, both, both with group \"\", both with the gateway group} x from "
                               "{no allowedRoutes, no from, Same, All, Selector matchLabels web/db, Selector nil, matchExpressions In/NotIn, both} x route kind "
                               "x route ns x sectionName {nil, L1, L2, nosuch} (8960 worlds); conflict factor: two routes with the same path / port x kinds x namespaces x hostnames x "
                               "hostless listener x backendRef lists (4608 worlds); List results come back in a seeded random order; random walks mutate all "
                               "dimensions together, with two routes, two parentRefs, hostless listeners and 6 weighted backendRef lists"),
                        assumptions=["pairs whose route kind does not fit the listener protocol are not judged (the documentation leaves protocol out)",
                                     "namespace labels are fixed within a history (namespaces are not watched)",
                                     "only v1 Gateway/HTTPRoute and v1alpha2 TCPRoute objects are created"])
