"""C11 — no needless reloads: no-op resyncs and in-capacity endpoint changes stay dynamic."""
from . import dyn


def run(ctx):
    dyn.run_engine(ctx, dyn.C11_INVS)
