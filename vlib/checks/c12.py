"""C12 — a change is never lost to a transient failure: the next reconcile applies it."""
import random
from .. import core, universe as U
from . import ctl

INVS = {"Converged", "RunningOK", "RetrySucceeds"}


def sig(base, e, h):
    st = h["steps"][e["step"]]
    f = st.get("faultname") or ",".join(x["point"] for x in st.get("faults", [])) or "after-fault"
    q = "queue" if h["opt"].get("reloadinterval_ms") else "noqueue"
    return "%s:%s:%s" % (base.split(":")[0], f, q)


def run(ctx):
    core.build_harness(ctx, ["ctl"])
    ctl.design(ctx)
    q = ctx.quick()
    opts = [dict(shards=0, watchwithoutclass=True), dict(shards=3, watchwithoutclass=True),
            dict(shards=0, watchwithoutclass=True, reloadinterval_ms=30), dict(shards=3, watchwithoutclass=True, reloadinterval_ms=30)]
    hs = ctl.tlc_histories(ctx, 250 if q else 6000, maxops=2, maxbatches=3, tag="faults", opts=opts, faults=tuple(U.FAULTS))
    if len(hs) > 16000:
        # TLC prints every candidate last batch of a simulated history: tens of thousands of histories, each with real waits
        ctx.rng.shuffle(hs)
        hs = hs[:16000]
    # every failure point on one fixed history shape, with and without the reload queue, once and twice in a row
    for oi, opt in enumerate(opts):
        for f in U.FAULTS:
            for twice in (False, True):
                steps = [dict(ops=U.base_ops() + [U.op_ing(1, "t1"), U.op_sec("c1", "crt:c1")]),
                         dict(ops=[U.op_ing(2, "t4"), U.op_eps("s1", "e2")], faults=[U.FAULTS[f]], faultname=f)]
                if twice:
                    steps.append(dict(ops=[U.op_ing(3, "t2"), U.op_eps("s1", "e4")], faults=[U.FAULTS[f]], faultname=f))
                steps.append(dict(ops=[U.op_eps("s2", "e1")]))
                hs.append(dict(id="fp-%s-%d-%d" % (f, oi, twice), opt=dict(opt), steps=steps))
                # the same with a backend whose paths differ in their configuration (per-path ACLs, a map of its own: the
                # `backmap` failure point only exists here) and that comes into being in the update that fails
                acl = {"cors-enable": "true"}
                steps = [dict(ops=U.base_ops() + [U.op_ing(1, "t1"), U.op_sec("c1", "crt:c1")]),
                         dict(ops=[U.op_ing(2, "t6", extra_ann=acl), U.op_eps("s1", "e2")], faults=[U.FAULTS[f]], faultname=f)]
                if twice:
                    steps.append(dict(ops=[U.op_ing(3, "t5", extra_ann={"hsts": "true", "hsts-max-age": "77"}), U.op_eps("s1", "e4")],
                                      faults=[U.FAULTS[f]], faultname=f))
                steps.append(dict(ops=[U.op_eps("s2", "e1")]))
                hs.append(dict(id="fpacl-%s-%d-%d" % (f, oi, twice), opt=dict(opt), steps=steps))
    out, inp = ctl.run_histories(ctx, hs, "c12", fresh=1)
    res = ctl.judge(ctx, out, "c12")
    events = ctl.report(ctx, res, out, inp, INVS, extra_sig=sig, confirm=False)
    states = [e for e in events if e["ev"] == "State"]
    nf = sum(1 for e in states if e["faulted"])
    nfail = sum(1 for e in states if e["failed"])
    if nfail == 0:
        raise core.Undecided("no injected fault made a reconciliation fail: the fault injection is dead")
    sample = [dict(history=h["id"], faults=[st.get("faultname") for st in h["steps"]]) for h in hs[-3:]]
    core.write_evidence(ctx, sample, extra=dict(
        histories=len(hs), reconciliations=len(states), faults_injected=nf, reconciliations_that_failed=nfail,
        retries_run=sum(e["retried"] for e in states), failure_points=sorted(U.FAULTS),
        bounds="12 failure points (each map / crt-list / main cfg / shard cfg write via EISDIR, admin socket command 0..2 answered badly or "
               "dropped, reload result failed once/twice, reload request dropped) x {reload queue, no queue} x {shards 0,3}, in TLC-simulated "
               "histories of <=3 batches and on a fixed history shape once and twice in a row; judged after the controller's own retry"),
        assumptions=["the retry is what the controller schedules itself: Reconcile again with the same queue item and an empty batch "
                     "(RequeueAfter --reload-retry), or the reload queue's self re-add; no further fault during the retry",
                     "file write faults are injected by replacing the target by a directory (needs root)"], level="model_checking")
