"""C13 — rate limits hold: min spacing, coalescing, bounded delay.

TLC proposes schedules (spec/RateLimit.tla, exhaustive within small bounds + simulation),
the real limiters and work queues run them in real time (harness/cmd/c13),
TLC judges the recorded histories (spec/TraceRateLimit.tla): layer A = verdict, layer B = drift.
"""
import json, os, re
from .. import core
from ..core import Undecided, log

UNIT_MS = int(os.environ.get("VERIF_TICK_MS", "20"))
EPS_MS = int(os.environ.get("VERIF_EPS_MS", str(UNIT_MS // 2)))


def cfg_text(kinds, limiter, interval, wait, horizon, tail, maxarr, fixed, guard, proc, invs, spec="Spec", extra=""):
    return """SPECIFICATION %s
CONSTANTS
    Kinds = {%s}
    Limiter = "%s"
    Interval = %d
    Wait = %d
    Horizon = %d
    TailLen = %d
    MaxArrivals = %d
    Eps = 0
    ReloadFixed = %s
    Guard = %d
    Proc = {%s}
%s
INVARIANTS
%s
CHECK_DEADLOCK FALSE
""" % (spec, ", ".join('"%s"' % k for k in kinds), limiter, interval, wait, horizon, tail, maxarr,
       "TRUE" if fixed else "FALSE", guard, ", ".join(str(p) for p in proc), extra,
       "\n".join("    " + i for i in invs))


ALL_INVS = ["TypeOK", "InvMinSpacing", "InvCoalesced", "InvBoundedDelay", "InvNothingLost"]
KINDS = {"reload": ["r"], "controller": ["p", "f"]}


def design(ctx):
    """Design-level model checking of layer B against layer A."""
    q = ctx.quick()
    runs = [
        ("reload-i4", "reload", 4, 0, 12 if q else 16, 4 if q else 5, [0, 2], ALL_INVS),
        ("controller-i4w1", "controller", 4, 1, 9 if q else 11, 4, [0], ALL_INVS),
        ("controller-proc", "controller", 4, 1, 8 if q else 10, 3 if q else 4, [0, 2],
         [i for i in ALL_INVS if i != "InvCoalesced"]),
    ]
    if not q:
        runs += [
            ("reload-i3", "reload", 3, 0, 14, 5, [0, 2], ALL_INVS),
            ("reload-i6", "reload", 6, 0, 16, 4, [0, 2], ALL_INVS),
            ("controller-i4w0", "controller", 4, 0, 11, 4, [0], ALL_INVS),
            ("controller-i3w6", "controller", 3, 6, 11, 4, [0], ALL_INVS),
            ("controller-i2w5", "controller", 2, 5, 11, 4, [0], ALL_INVS),
            ("controller-i6w2", "controller", 6, 2, 12, 4, [0], ALL_INVS),
        ]
    for name, lim, i, w, hor, n, proc, invs in runs:
        txt = cfg_text(KINDS[lim], lim, i, w, hor, i + w + max(proc) + 1, n, True, 0, proc, invs)
        core.tlc_design(ctx, "design-" + name, "RateLimit", None, cfgtext=txt, workers=core.NCPU, timeout=1500)
    # non-vacuity: the limiter as found in the pinned tree (F1) must be rejected by MinSpacing
    txt = cfg_text(["r"], "reload", 4, 0, 12, 6, 4, False, 0, [0], ALL_INVS)
    r = core.tlc(ctx, "design-reload-asfound", "RateLimit", None, cfgtext=txt, workers=4, timeout=600)
    if r["invariant"] != "InvMinSpacing":
        raise Undecided("self-test failed: the as-found reload limiter (F1) is not rejected by MinSpacing")
    ctx.notes.append("non-vacuity: ReloadFixed=FALSE (limiter as found, F1) violates InvMinSpacing at design level")


def gen_schedules(ctx, name, lim, interval, wait, horizon, maxarr, simulate=None, proc=(0,)):
    tail = interval + wait + max(proc) + 2
    txt = cfg_text(KINDS[lim], lim, interval, wait, horizon, tail, maxarr, True, 1, proc,
                   ["EmitBehaviour"])
    kw = dict(workers=1, timeout=900)
    if simulate:
        kw.update(simulate="num=%d" % simulate, depth=horizon + tail + 6 * maxarr + 10,
                  extra=["-seed", str(ctx.seed)])
    r = core.tlc(ctx, "gen-" + name, "RateLimit", None, cfgtext=txt, **kw)
    if r["rc"] != 0:
        raise Undecided("schedule generation failed (%s):\n%s" % (name, r["out"][-2000:]))
    if not simulate:
        ctx.tlc_stats.append(dict(name="gen-" + name, module="RateLimit", cfg="(generated)", generated=r["generated"],
                                  distinct=r["distinct"], depth=r["depth"], wall_s=round(r["wall"], 1), violated=None))
    behs = core.behaviours_from_print(r["out"])
    seen, res = set(), []
    for b in behs:
        arr = [dict(t=e["t"], k=e["k"]) for e in b if e["ev"] == "Arrive"]
        key = json.dumps([arr, [e.get("p", 0) for e in b if e["ev"] == "Run"] if max(proc) > 0 else []])
        if key in seen or not arr:
            continue
        seen.add(key)
        res.append(dict(limiter=lim, interval=interval, wait=wait, end=horizon + tail, arrivals=arr,
                        expect=[dict(t=e["t"], k=e["k"]) for e in b if e["ev"] == "Run"],
                        proc=[e.get("p", 0) for e in b if e["ev"] == "Run"] if max(proc) > 0 else []))
    return res


def replay(ctx, tag, scheds, par=150):
    for n, s in enumerate(scheds):
        s["id"] = "%s-%d" % (tag, n)
    inp = ctx.path("replay", tag + ".json")
    out = ctx.path("replay", tag + ".ndjson")
    json.dump(scheds, open(inp, "w"))
    p = core.run([os.path.join(ctx.bindir, "c13"), "-in", inp, "-out", out, "-unit", str(UNIT_MS), "-par", str(par)],
                 timeout=1800)
    stats = json.loads(p.stdout.strip().splitlines()[-1])
    return out, stats


def judge(ctx, tag, lim, interval, wait, tracefile, proc=(0,)):
    n = core.count_lines(tracefile)
    extra = "    Unit = %d\n    EpsMs = %d" % (UNIT_MS, EPS_MS)
    txt = cfg_text(KINDS[lim], lim, interval, wait, 1000000, 0, 1000000, True, 0, proc, ["Result"],
                   spec="TraceSpec", extra=extra)
    r = core.tlc(ctx, "judge-" + tag, "TraceRateLimit", None, cfgtext=txt, workers=1, timeout=1800,
                 files={tracefile: "trace.ndjson"})
    m = re.findall(r'<<"RESULT", "(.*)">>', r["out"])
    if r["rc"] != 0 or not m:
        raise Undecided("trace judgement did not complete (%s):\n%s" % (tag, r["out"][-3000:]))
    res = json.loads(m[-1].replace('\\"', '"'))
    if res["n"] != n:
        raise Undecided("trace judgement consumed %d of %d lines (%s)" % (res["n"], n, tag))
    ctx.trace_events += n
    return res


def run(ctx):
    core.build_harness(ctx, ["c13"])
    design(ctx)
    q = ctx.quick()
    groups = []
    # exhaustive small schedules + simulated deeper ones, per limiter configuration
    plan = [("reload", 4, 0), ("controller", 4, 0), ("controller", 4, 2)]
    if not q:
        plan += [("reload", 6, 0), ("controller", 3, 6), ("controller", 6, 2)]
    for lim, i, w in plan:
        name = "%s-i%dw%d" % (lim, i, w)
        ex = gen_schedules(ctx, name, lim, i, w, 9 if q else 11, 3 if lim == "reload" or not q else 2)
        if lim == "controller" and q and len(ex) > 700:
            ctx.rng.shuffle(ex)
            ex = ex[:700]
        sim = gen_schedules(ctx, name + "-sim", lim, i, w, 24, 7, simulate=60 if q else 600)
        if not ex or not sim:
            raise Undecided("no schedules generated for " + name)
        if lim == "controller":
            # a full-sync request is raised either by an event handler or by acquiring the lease
            # (IngressReconciler.leaderChanged): every second one takes the second road
            nlead = 0
            for sc in ex + sim:
                for a in sc["arrivals"]:
                    if a["k"] == "f":
                        nlead += 1
                        if nlead % 2 == 0:
                            a["via"] = "leader"
        groups.append((name, lim, i, w, ex + sim, len(ex), len(sim), (0,)))
    # runs that take time (a reload lasts, a reconciliation lasts): requests arrive while the previous run is still going on
    for lim, i, w in [("reload", 4, 0), ("controller", 4, 1)]:
        name = "%s-i%dw%d-proc" % (lim, i, w)
        ex = gen_schedules(ctx, name, lim, i, w, 8 if q else 10, 3 if lim == "reload" else 2, proc=(0, 2))
        sim = gen_schedules(ctx, name + "-sim", lim, i, w, 20, 6, simulate=40 if q else 400, proc=(0, 2))
        ex = [s for s in ex if any(s["proc"])]
        sim = [s for s in sim if any(s["proc"])]
        if len(ex) > (300 if q else 3000):
            ctx.rng.shuffle(ex)
            ex = ex[:300 if q else 3000]
        if not ex or not sim:
            raise Undecided("no schedules with processing time generated for " + name)
        groups.append((name, lim, i, w, ex + sim, len(ex), len(sim), (0, 2)))
    samples, total, exh, simn, offgrid, retried = [], 0, 0, 0, 0, 0
    drift_all = []
    for name, lim, i, w, scheds, nex, nsim, proc in groups:
        out, st = replay(ctx, name, scheds)
        offgrid += st["offgrid"]
        retried += st["retried"]
        res = judge(ctx, name, lim, i, w, out, proc=proc)
        if max(proc) > 0:
            # coalescing is promised for instantaneous runs only (a request that arrives during a run needs a run of its own)
            res["bad"] = [b for b in res["bad"] if b["inv"] != "Coalesced"]
        total += len(scheds)
        exh += nex
        simn += nsim
        ctx.traces_validated += len(scheds)
        samples.append(dict(config=name, arrivals=scheds[0]["arrivals"], predicted_runs=scheds[0]["expect"]))
        drift_all += [dict(d, config=name) for d in res["drift"] if d["ev"] != "offgrid"]
        # layer A failures: must reproduce in two further independent real-time runs
        byid = {s["id"]: s for s in scheds}
        for attempt in (1, 2):
            if not res["bad"]:
                break
            again = [dict(byid[b["tr"]]) for b in {b["tr"]: b for b in res["bad"]}.values()]
            invs = {(b["tr"], b["inv"]) for b in res["bad"]}
            for a in again:
                a["orig"] = a["id"]
            origs = [a["orig"] for a in again]
            out2, _ = replay(ctx, "%s-again%d" % (name, attempt), again, par=40)
            res2 = judge(ctx, "%s-again%d" % (name, attempt), lim, i, w, out2, proc=proc)
            idmap = {a["id"]: a["orig"] for a in again}
            keep = {(idmap[b["tr"]], b["inv"]) for b in res2["bad"]}
            res["bad"] = [dict(tr=t, inv=v) for (t, v) in invs & keep]
            lastout = out2
        for b in res["bad"]:
            s = byid[b["tr"]]
            sig = "%s:%s" % (lim, b["inv"])
            d = core.save_replay(ctx, sig, [out], dict(schedule=s, invariant=b["inv"], unit_ms=UNIT_MS, eps_ms=EPS_MS,
                                                         how="bin/verif replay <this dir>"))
            core.classify(ctx, sig, "%s violated by the real %s limiter/queue on schedule %s (reproduced in 3 real-time runs)"
                          % (b["inv"], lim, json.dumps(s["arrivals"])), d)
    if offgrid > total * 0.2:
        raise Undecided("too many real-time samples off the grid (%d of %d): machine too loaded" % (offgrid, total))
    if drift_all:
        ctx.notes.append("drift: %d traces left layer B (first: %s); verdict rests on layer A"
                         % (len(drift_all), json.dumps(drift_all[0])))
    core.write_evidence(ctx, samples, extra=dict(
        schedules_replayed=total, schedules_exhaustive=exh, schedules_simulated=simn,
        offgrid_discarded_for_layerB=offgrid, retried=retried, drift=bool(drift_all), drift_traces=len(drift_all),
        unit_ms=UNIT_MS, eps_ms=EPS_MS,
        bounds="design: interval 2..6, wait 0..6, <=5 arrivals, horizon <=16; replay: exhaustive <=3 arrivals in 9..11 units "
               "(guard 1 unit), simulated <=7 arrivals in 24 units"),
        assumptions=["one time unit = %d ms; layer A judged on millisecond timestamps with %d ms allowance; a failure must "
                     "reproduce in three independent real-time runs" % (UNIT_MS, EPS_MS),
                     "worker loop of controller-runtime (Get, reconcile, Forget, Done) re-implemented in the harness for the controller queue",
                     "retries (AddAfter/RequeueAfter) bypass the limiters by design and are not constrained"])
