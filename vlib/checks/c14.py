"""C14 — every Kubernetes event lands in exactly one reconciliation batch (watchers hand-off)."""
import json, os, re, subprocess
from concurrent.futures import ThreadPoolExecutor
from .. import core
from ..core import Undecided

BOTH = "{FALSE, TRUE}"
CFG = "SPECIFICATION %s\nCONSTANTS\n    MaxEv = %d\n    MaxSwap = %d\n    Modes = %s\nINVARIANTS\n    %s\nCHECK_DEADLOCK FALSE\n"


def schedules(ctx, out):
    seen, res = set(), []
    for t in re.findall(r'<<"BEHAVIOUR", "(.*)">>', out):
        t = json.loads('"' + t + '"')
        if t not in seen:
            seen.add(t)
            res.append(json.loads(t))
    return res


def judge(ctx, tag, tracefile):
    n = core.count_lines(tracefile)
    r = core.tlc(ctx, "judge-" + tag, "TraceWatchers", None, cfgtext=CFG % ("TraceSpec", 0, 0, BOTH, "Result"), workers=1, timeout=3000,
                 files={tracefile: "trace.ndjson"}, heap="6g")
    m = re.findall(r'<<"RESULT", "(.*)">>', r["out"])
    if r["rc"] != 0 or not m:
        raise Undecided("trace validation did not complete (%s):\n%s" % (tag, r["out"][-3000:]))
    res = json.loads(json.loads('"' + m[-1] + '"'))
    if res["n"] != n:
        raise Undecided("trace validation consumed %d of %d lines" % (res["n"], n))
    ctx.trace_events += n
    return res


def extract(tracefile, tr):
    out, on = [], False
    for x in core.read_ndjson(tracefile):
        if x["ev"] == "Reset":
            on = x["id"] == tr
        if on:
            out.append(x)
    return out


def report(ctx, res, tracefile, kind):
    seen = set()
    for b in sorted(res["bad"], key=lambda b: (b["tr"], b["line"])):
        sig = "%s:%s" % (b["inv"], kind)
        if sig in seen:
            continue
        seen.add(sig)
        tf = ctx.path("viol", "%s.trace.ndjson" % b["tr"])
        core.write_ndjson(tf, extract(tracefile, b["tr"]))
        d = core.save_replay(ctx, sig, [tf], dict(invariant=b["inv"], detail=b["d"][:2000], execution=b["tr"], kind=kind,
                                                  how="harness/cmd/watchx (%s mode); validated by spec/TraceWatchers.tla" % kind))
        core.classify(ctx, sig, "%s violated in %s execution %s (trace line %d): %s" % (b["inv"], kind, b["tr"], b["line"], b["d"][:300]), d)
    if res["drift"]:
        ctx.notes.append("%d recorded batches satisfy the property but differ from the model's batch (%s) -- model drift, not a violation: %s"
                         % (len(res["drift"]), kind, json.dumps(res["drift"][0])[:300]))


def run(ctx):
    q = ctx.quick()
    # 1. the design: the specification satisfies the property for all interleavings within the bounds
    props = "ExactlyOneBatch\n    DataChained\n    NothingPending\n    QueueFollows"
    core.tlc_design(ctx, "design-watchers", "Watchers", None, cfgtext=CFG % ("Spec", 2, 2, BOTH, props), workers=core.NCPU, timeout=3000)
    if not q:
        # three deliveries and one swap, one run per value of the option (the mode never changes within a behaviour); with two
        # swaps the 135 events give more than 50 M states per mode (measured: the run stalls at 37 M with the default heap); the
        # second swap is explored with two deliveries above and with eight in the simulated schedules
        for mode in ("{FALSE}", "{TRUE}"):
            core.tlc_design(ctx, "design-watchers-3-" + mode.strip("{}").lower(), "Watchers", None, cfgtext=CFG % ("Spec", 3, 1, mode, props),
                            workers=core.NCPU, timeout=3000)
    core.build_harness(ctx, ["watchx"])
    core.build_harness(ctx, ["watchx"], race=True)
    # 2. schedules proposed by TLC, replayed one by one on the real watchers
    r = core.tlc(ctx, "gen-ex", "Watchers", None, cfgtext=CFG % ("Spec", 2, 1, BOTH, "Emit"), workers=1, timeout=1800)
    if r["rc"] != 0:
        raise Undecided("schedule enumeration failed:\n" + r["out"][-2000:])
    ctx.tlc_stats.append(dict(name="gen-exhaustive", module="Watchers", cfg="every schedule of 2 deliveries (135 events) and 1 swap, in both modes of the EndpointSlice option",
                              generated=r["generated"], distinct=r["distinct"], depth=r["depth"], wall_s=round(r["wall"], 1), violated=None))
    scheds = schedules(ctx, r["out"])
    if len(scheds) < 100000:
        raise Undecided("TLC enumerated only %d schedules" % len(scheds))
    for s in range(1 if q else 6):
        r = core.tlc(ctx, "gen-sim%d" % s, "Watchers", None, cfgtext=CFG % ("Spec", 8, 4, BOTH, "Emit"), workers=1, timeout=1800,
                     simulate="num=%d" % (1500 if q else 6000), depth=14, extra=["-seed", str(ctx.seed * 10 + s)])
        if r["rc"] != 0:
            raise Undecided("schedule generation failed:\n" + r["out"][-2000:])
        scheds += schedules(ctx, r["out"])
    inp = ctx.path("w", "scheds.json")
    seqout = ctx.path("w", "seq.ndjson")
    json.dump(scheds, open(inp, "w"))
    core.run([os.path.join(ctx.bindir, "watchx"), "-mode", "seq", "-in", inp, "-out", seqout, "-work", ctx.path("w", "ws", "x")],
             timeout=3000, env=dict(VERIF_REPO=core.REPO))
    ctx.traces_validated += len(scheds)
    # 3. concurrent executions under the race detector
    procs = 4 if q else 16
    iters = 25 if q else 400

    def conc(i):
        out = ctx.path("w", "conc%d.ndjson" % i)
        p = core.run([os.path.join(ctx.bindir, "watchx-race"), "-mode", "conc", "-iters", str(iters), "-seed", str(ctx.seed * 100 + i),
                      "-producers", str(3 + i % 6), "-per", str(60 + 40 * (i % 4)), "-out", out, "-work", ctx.path("w", "wc%d" % i, "x")],
                     timeout=3300, env=dict(VERIF_REPO=core.REPO, GORACE="halt_on_error=1 exitcode=66"), check=False)
        return i, out, p

    with ThreadPoolExecutor(max_workers=min(procs, 8)) as ex:
        runs = list(ex.map(conc, range(procs)))
    raced = False
    for i, out, p in runs:
        if p.returncode == 66 or "WARNING: DATA RACE" in (p.stdout or ""):
            if not raced:
                raced = True
                rf = ctx.path("viol", "race-%d.txt" % i)
                open(rf, "w").write(p.stdout or "")
                m = re.search(r"WARNING: DATA RACE(?:.|\n)*?(?=\n\n|\Z)", p.stdout or "")
                d = core.save_replay(ctx, "DataRace:conc", [rf], dict(invariant="DataRace", how="harness/cmd/watchx -mode conc built with -race",
                                                                      seed=ctx.seed * 100 + i))
                core.classify(ctx, "DataRace:conc", "the race detector reports unsynchronised access between an event handler and the batch swap: %s"
                              % " | ".join(l.strip() for l in (m.group(0) if m else "").splitlines()[:8])[:500], d)
        elif p.returncode != 0:
            raise Undecided("concurrent driver failed (%d):\n%s" % (p.returncode, (p.stdout or "")[-3000:]))
    ctx.traces_validated += sum(iters for i, out, p in runs if p.returncode == 0)
    # 4. TLC validates every recorded execution against the specification
    res = judge(ctx, "seq", seqout)
    report(ctx, res, seqout, "seq")
    drift = len(res["drift"])
    good = [(i, out) for i, out, p in runs if p.returncode == 0]
    with ThreadPoolExecutor(max_workers=8) as ex:
        judged = list(ex.map(lambda io: (io[1], judge(ctx, "conc%d" % io[0], io[1])), good))
    nbatch = 0
    for out, r2 in judged:
        report(ctx, r2, out, "conc")
        drift += len(r2["drift"])
    for i, out in good[:1]:
        nbatch = sum(1 for x in core.read_ndjson(out) if x["ev"] == "Swap")
    sample = extract(seqout, "s0")
    core.write_evidence(ctx, sample[:12], extra=dict(sequential_schedules=len(scheds), concurrent_executions=len(good) * iters,
                        concurrent_processes=procs, race_detector=True, batches_in_first_concurrent_process=nbatch, model_drift=drift,
                        bounds="event vocabulary of 135 events x the two values of --enable-endpointslices-api (ConfigMap global / tcp / other of the controller namespace / foreign x op x 3 data versions; Ingress and IngressClass x op x class "
                               "validity before/after; Service/Secret x 2 names x op; Endpoints x 2 names x op x subsets changed; EndpointSlice x service label a/x or none x op x endpoints changed; Pod x op x terminating; Gateway / HTTPRoute / TCPRoute x op; GatewayClass x op x class validity before/after); exhaustive 2 deliveries + 1 swap, "
                               "simulated 8 deliveries + 4 swaps; concurrent: 3-8 informer goroutines x 60-180 uniquely named events each while another "
                               "goroutine swaps continuously and delivers the ConfigMap updates, GOMAXPROCS 2..16, built with -race"),
                        assumptions=["the harness calls the handlers through hook H2 (predicates, then handler) instead of informers",
                                     "in concurrent executions the delivery order is read from the object list entries, appended under the lock",
                                     "of the Gateway API only the v1 kinds (and TCPRoute v1alpha2) are delivered"])
