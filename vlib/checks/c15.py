"""C15 — each TLS host is served with the certificate its Ingress declares, else the default one."""
import json, os, re
from .. import core, universe as U
from . import ctl
from ..core import Undecided

TLS_TMPLS = ["t4", "t5", "t7", "t9", "t10", "t13", "t1", "t2"]


def run(ctx):
    core.build_harness(ctx, ["ctl"])
    ctl.design(ctx)
    q = ctx.quick()
    # assignments of secrets to hosts across ingresses (shared, conflicting, wildcard + exact, absent, malformed) and
    # secret add / update / delete histories: TLC-simulated over the TLS-heavy templates
    opts = [dict(shards=0, watchwithoutclass=True), dict(shards=0, watchwithoutclass=True, defaultcrt="d/dflt")]
    hs = ctl.tlc_histories(ctx, 400 if q else 8000, maxops=3, maxbatches=3, tag="tls", tmpls=TLS_TMPLS, opts=opts)
    # two secrets holding the same certificate, renewed together: the values w1/w2 have the same content in every secret
    hs += [dict(h, id=h["id"] + "s") for h in ctl.tlc_histories(ctx, 250 if q else 4000, maxops=3, maxbatches=3, tag="tlsshared", tmpls=["t4", "t5", "t7", "t9"], opts=opts,
                                                               secvals=("w1", "w2", "absent"))]
    # directed behaviours of Controller!Next: both secrets in use hold the same certificate and are renewed in one batch
    E = lambda k, n, v: dict(k=k, n=n, v=v)
    for i, (ta, tb) in enumerate([("t4", "t5"), ("t9", "t7"), ("t4", "t7"), ("t9", "t5")]):
        beh = [dict(ops=[E("ing", 1, ta), E("ing", 2, tb), E("sec", "c1", "w1"), E("sec", "c2", "w1")], fault="none"),
               dict(ops=[E("sec", "c1", "w2"), E("sec", "c2", "w2")], fault="none"),
               dict(ops=[E("sec", "c2", "w1"), E("sec", "c1", "w1")], fault="none")]
        hs.append(ctl.with_cluster("directed-shared-%d" % i, beh, opt=dict(opts[i % 2])))
    # one secret named by two (three) ingresses for different hosts goes away, turns unusable, comes back and is renewed, each in a
    # batch of its own: every host that names it follows (every referrer is linked to the secret, not only the first one parsed)
    k = 0
    for (ta, tb, sec) in [("t4", "t7", "c1"), ("t7", "t4", "c1"), ("t9", "t5", "c2"), ("t5", "t9", "c2"), ("t10", "t4", "c1"), ("t4", "t10", "c1")]:
        for walk in (["absent", "v1", "bad", "v2"], ["bad", "v2", "absent", "v1"]):
            beh = [dict(ops=[E("sec", sec, "v1"), E("ing", 1, ta), E("ing", 2, tb)], fault="none")]
            beh += [dict(ops=[E("sec", sec, v)], fault="none") for v in walk]
            h = ctl.with_cluster("directed-samesecret-%d" % k, beh, opt=dict(opts[k % 2]))
            if k % 2 == 1:
                # another namespace uses the same local secret name for another certificate, in an older Ingress: the hosts of
                # namespace d still get the secret of namespace d
                foreign = dict(label="foreign", rules=[U.R("e.local", U.P("/", "s1"))], tls=[U.T(sec, "e.local")])
                older = U.op_ing(1, foreign, name="older", ns="e")
                older["created"] = 0
                h["steps"][0]["ops"] = [U.op_svc("s1", ns="e"), U.op_eps("s1", "e1", ns="e"), U.op_sec(sec, "crt:foreign", ns="e"), older] + h["steps"][0]["ops"]
            hs.append(h)
            k += 1
    for h in hs:
        if h["opt"].get("defaultcrt"):
            h["steps"][0]["ops"].insert(0, U.op_sec("dflt", "crt:dflt"))
    inp = ctx.path("ctl", "c15.json")
    out = ctx.path("ctl", "c15.ndjson")
    json.dump(hs, open(inp, "w"))
    p = core.run([os.path.join(ctx.bindir, "ctl"), "-in", inp, "-out", out, "-work", ctx.path("ctl", "w", "x"), "-fresh", "1", "-routing",
                  "-par", str(core.NCPU)], timeout=3400, env=dict(VERIF_REPO=core.REPO))
    st = json.loads(p.stdout.strip().splitlines()[-1])
    ctx.traces_validated += st["histories"]
    n = core.count_lines(out)
    cfg = ctl.controller_cfg([1, 2, 3], list(U.ING), 0, 0, ["Result"], spec="TraceSpec", secvals=("absent", "v1", "v2", "bad", "w1", "w2"), epsids=tuple(U.EPS),
                             extra='    JudgeWhat = "certs"')
    r = core.tlc(ctx, "judge-certs", "TraceRouting", None, cfgtext=cfg, workers=1, timeout=3400, files={out: "trace.ndjson"}, heap="8g")
    m = re.findall(r'<<"RESULT", "(.*)">>', r["out"])
    if r["rc"] != 0 or not m:
        raise Undecided("trace judgement did not complete:\n" + r["out"][-3000:])
    res = json.loads(m[-1].replace('\\"', '"'))
    if res["n"] != n:
        raise Undecided("consumed %d of %d" % (res["n"], n))
    ctx.trace_events += n
    byh = {h["id"]: h for h in hs}
    seen = set()
    for b in sorted(res["bad"], key=lambda b: (b["step"], b["tr"])):
        kind = "stale" if str(b["got"]).startswith("stale:") else ("default-instead" if b["got"] == "default" else ("other-instead" if b["expected"] != ["default"] else "secret-instead-of-default"))
        sig = "CertOK:%s" % kind
        if sig in seen:
            continue
        seen.add(sig)
        hf = ctx.path("viol", b["tr"] + ".history.json")
        json.dump([byh[b["tr"]]], open(hf, "w"), indent=1)
        d = core.save_replay(ctx, sig, [hf], dict(invariant="CertOK", sni=b["host"], got=b["got"], expected=b["expected"], step=b["step"]))
        core.classify(ctx, sig, "CertOK: SNI %s is served %s, the declared one is %s (history %s batch %d, cluster %s)"
                      % (b["host"], b["got"], b["expected"], b["tr"], b["step"], json.dumps(byh[b["tr"]]["steps"][b["step"]].get("cluster"))), d)
    # rotation: the running HAProxy serves what the files hold (dynamic `set ssl cert` or reload) and incremental == fresh
    res2 = ctl.judge(ctx, out, "c15-running")
    ctx.trace_events -= n
    ctl.report(ctx, res2, out, inp, {"RunningOK", "Converged", "ModelConverged"})
    states = [e for e in core.read_ndjson(out) if e["ev"] == "State" and e.get("routing")]
    rot = sum(1 for h in hs for st in h["steps"][1:] for o in st["ops"] if o["kind"] == "sec")
    sample = [dict(cluster=states[-1]["cluster"], crtlist=[dict(c=c["c"], cur=c["cur"], filters=["".join(f) for f in c["filters"]]) for c in states[-1]["routing"]["crtlist"]])]
    core.write_evidence(ctx, sample, extra=dict(cluster_states=len(states), sni_names_judged=len(states) * len(U.REQ_SNI), secret_events_after_start=rot,
                        bounds="TLC-simulated histories over 3 ingress slots x 8 TLS-heavy templates (shared and conflicting secrets, tls-only ingress, "
                               "wildcard + exact host), 2 secrets x {absent, v1, v2, malformed, and two values whose content is the same in both secrets}, with and without --default-ssl-certificate; SNI names %s"
                               % [n for n, _ in U.REQ_SNI]),
                        assumptions=["crt-list selection semantics as transcribed in Routing!SNI", "certificates are identified by their first PEM block",
                                     "forbidden cross-namespace secrets are covered by C09"])
