"""C16 — weighted balancing: server weights are valid and split traffic as configured."""
import json, os, re, concurrent.futures
from .. import core
from ..core import Undecided

WEIGHTS = [0, 1, 2, 3, 5, 7, 10, 41, 49, 50, 100, 127, 128, 200, 255, 256]
REPL = list(range(0, 9))
INIT = [1, 100, 256]


def cfg(spec, invs, n, weights=WEIGHTS, repl=REPL, init=INIT):
    return """SPECIFICATION %s
CONSTANTS
    WeightVals = {%s}
    ReplVals = {%s}
    InitVals = {%s}
    N = %d
INVARIANTS
%s
CHECK_DEADLOCK FALSE
""" % (spec, ", ".join(map(str, weights)), ", ".join(map(str, repl)), ", ".join(map(str, init)), n, "\n".join("    " + i for i in invs))


def judge_chunk(args):
    ctx, i, path = args
    n = core.count_lines(path)
    r = core.tlc(ctx, "judge-%d" % i, "TraceWeights", None, cfgtext=cfg("TraceSpec", ["Result"], 2), workers=1, timeout=3000,
                 files={path: "trace.ndjson"}, heap="3g")
    m = re.findall(r'<<"RESULT", "(.*)">>', r["out"])
    if r["rc"] != 0 or not m:
        raise Undecided("trace judgement did not complete (chunk %d):\n%s" % (i, r["out"][-2000:]))
    res = json.loads(m[-1].replace('\\"', '"'))
    if res["n"] != n:
        raise Undecided("chunk %d: consumed %d of %d" % (i, res["n"], n))
    return res, n


def run(ctx):
    core.build_harness(ctx, ["weightsx"])
    q = ctx.quick()
    # n = 2: TLC enumerates the whole grid (quick: a reduced grid); n = 3: simulated
    w2 = [0, 1, 2, 3, 7, 41, 50, 128, 200, 255, 256] if q else WEIGHTS
    r2 = [0, 1, 2, 3, 5, 8] if q else REPL
    r = core.tlc(ctx, "gen2", "Weights", None, cfgtext=cfg("Spec", ["Emit"], 2, w2, r2), workers=1, timeout=1800)
    if r["rc"] != 0:
        raise Undecided("enumeration failed:\n" + r["out"][-2000:])
    ctx.tlc_stats.append(dict(name="enumerate-n2", module="Weights", cfg="grid n=2", generated=r["generated"], distinct=r["distinct"],
                              depth=r["depth"], wall_s=round(r["wall"], 1), violated=None))
    ins = core.behaviours_from_print(r["out"])
    n2 = len(ins)
    w3 = [0, 1, 3, 50, 128, 256] if q else [0, 1, 2, 3, 7, 50, 127, 128, 256]
    r3 = [0, 1, 3, 7] if q else [0, 1, 2, 3, 5, 8]
    r = core.tlc(ctx, "gen3", "Weights", None, cfgtext=cfg("Spec", ["Emit"], 3, w3, r3, [1, 256] if q else INIT), workers=1, timeout=2400)
    if r["rc"] != 0:
        raise Undecided("enumeration (n=3) failed:\n" + r["out"][-2000:])
    ctx.tlc_stats.append(dict(name="enumerate-n3", module="Weights", cfg="grid n=3", generated=r["generated"], distinct=r["distinct"],
                              depth=r["depth"], wall_s=round(r["wall"], 1), violated=None))
    ins3 = core.behaviours_from_print(r["out"])
    ins += ins3
    if not ins or not ins3:
        raise Undecided("TLC proposed no input")
    inp = ctx.path("w", "in.json")
    out = ctx.path("w", "trace.ndjson")
    json.dump(ins, open(inp, "w"))
    p = core.run([os.path.join(ctx.bindir, "weightsx"), "-in", inp, "-out", out, "-work", ctx.path("w", "x", "y"),
                  "-pipeline", str(150 if q else 3000)], timeout=3000, env=dict(VERIF_REPO=core.REPO))
    st = json.loads(p.stdout.strip().splitlines()[-1])
    lines = open(out).read().splitlines()
    nchunks = min(core.NCPU, max(1, len(lines) // 3000))
    chunks = []
    for i in range(nchunks):
        cp = ctx.path("w", "chunk-%d.ndjson" % i)
        open(cp, "w").write("\n".join(lines[i::nchunks]) + "\n")
        chunks.append((ctx, i, cp))
    bad, total = [], 0
    with concurrent.futures.ThreadPoolExecutor(max_workers=nchunks) as ex:
        for res, n in ex.map(judge_chunk, chunks):
            bad += res["bad"]
            total += n
    ctx.trace_events += total
    ctx.traces_validated += total
    recs = {json.loads(l)["id"]: json.loads(l) for l in lines}
    seen = set()
    for b in sorted(bad, key=lambda b: (len(recs[b["id"]]["w"]), sum(recs[b["id"]]["w"]))):
        sig = "%s:%s" % (b["inv"], b["src"])
        if sig in seen:
            continue
        seen.add(sig)
        rf = ctx.path("viol", b["id"] + ".json")
        json.dump(recs[b["id"]], open(rf, "w"))
        d = core.save_replay(ctx, sig, [rf], dict(invariant=b["inv"], case=recs[b["id"]]))
        core.classify(ctx, sig, "%s violated: weights %s replicas %s initial-weight %d mode %s -> written %s (%s)"
                      % (b["inv"], recs[b["id"]]["w"], recs[b["id"]]["l"], recs[b["id"]]["iw"], recs[b["id"]]["mode"],
                         recs[b["id"]]["out"], b["src"]), d)
    nontrivial = len({(tuple(r["w"]), tuple(r["l"]), r["iw"]) for r in recs.values() if sum(1 for x in r["l"] if x > 0) >= 2 and any(r["w"])})
    core.write_evidence(ctx, [recs[json.loads(lines[0])["id"]], recs[json.loads(lines[-1])["id"]]],
                        extra=dict(evaluations=total, distinct_nontrivial=nontrivial, n2_exhaustive=n2, n3_exhaustive=len(ins3),
                                   through_pipeline=st["pipeline"],
                                   rule="inputs enumerated by TLC from Weights!Init; non-trivial = at least two groups with replicas and one non-zero weight",
                                   bounds="n=2: weights %s x replicas %s x initial-weight %s exhaustive; n=3: weights %s x replicas %s exhaustive; "
                                          "blue/green (deploy and pod mode) through the pipeline for a stride sample" % (w2, r2, INIT, w3, r3)),
                        assumptions=["groups without replicas carry no server and are outside the contract",
                                     "Gateway backendRefs use the same RebalanceWeight with initial weight 128 (covered by the direct calls; "
                                     "the Gateway pipeline path is exercised by C10)"])
