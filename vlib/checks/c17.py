"""C17 — ACME: certificates requested exactly when needed, queue tracks Ingress changes."""
import json, os, re
from .. import core
from ..core import Undecided

CFG = "SPECIFICATION %s\nCONSTANTS\n    MaxSteps = %d\n    MaxOps = %d\nINVARIANTS\n    %s\nCHECK_DEADLOCK FALSE\n"


def behaviours(out):
    seen, res = set(), []
    for t in re.findall(r'<<"BEHAVIOUR", "(.*)">>', out):
        t = json.loads('"' + t + '"')
        if t not in seen:
            seen.add(t)
            res.append(json.loads(t))
    return res


def judge(ctx, tag, tracefile):
    n = core.count_lines(tracefile)
    r = core.tlc(ctx, "judge-" + tag, "TraceAcme", None, cfgtext=CFG % ("TraceSpec", 0, 0, "Result"), workers=1, timeout=3000,
                 files={tracefile: "trace.ndjson"}, heap="6g")
    m = re.findall(r'<<"RESULT", "(.*)">>', r["out"])
    if r["rc"] != 0 or not m:
        raise Undecided("trace judgement did not complete (%s):\n%s" % (tag, r["out"][-3000:]))
    res = json.loads(json.loads('"' + m[-1] + '"'))
    if res["n"] != n:
        raise Undecided("consumed %d of %d lines" % (res["n"], n))
    ctx.trace_events += n
    return res


def run(ctx):
    q = ctx.quick()
    core.build_harness(ctx, ["acmex"])
    # part A: the decision rows
    r = core.tlc(ctx, "gen-rows", "Acme", None, cfgtext=CFG % ("SpecB", 0, 0, "EmitRows"), workers=1, timeout=600)
    if r["rc"] != 0:
        raise Undecided("row enumeration failed:\n" + r["out"][-2000:])
    rows = behaviours(r["out"])
    if len(rows) != 1 or len(rows[0]) != 2500:
        raise Undecided("TLC did not print the 2500 decision rows")
    rows = rows[0]
    ctx.tlc_stats.append(dict(name="rows", module="Acme", cfg="4 secret states x 5 expiry positions x 5 SAN sets x 4 domain sets x 5 client outcomes",
                              generated=len(rows), distinct=len(rows), depth=1, wall_s=round(r["wall"], 1), violated=None))
    rin, rout = ctx.path("a", "rows.json"), ctx.path("a", "rows.ndjson")
    json.dump(rows, open(rin, "w"))
    core.run([os.path.join(ctx.bindir, "acmex"), "-mode", "rows", "-in", rin, "-out", rout, "-work", ctx.path("a", "wr", "x")],
             timeout=1800, env=dict(VERIF_REPO=core.REPO))
    res = judge(ctx, "rows", rout)
    recs = {x["id"]: x for x in core.read_ndjson(rout)}
    ctx.traces_validated += len(rows)
    seen = set()
    for b in sorted(res["bad"], key=lambda b: int(b["id"][1:])):
        x = recs[b["id"]]
        rr = x["r"]
        sig = "%s:sec=%s:exp=%s:sign=%s" % (b["inv"], rr["sec"], rr["exp"] if rr["sec"] == "cert" else "-", rr["sign"])
        if sig in seen:
            continue
        seen.add(sig)
        rf = ctx.path("viol", b["id"] + ".json")
        json.dump(x, open(rf, "w"), indent=1)
        d = core.save_replay(ctx, sig, [rf], dict(invariant=b["inv"], row=rr, observed=x["o"], how="harness/cmd/acmex -mode rows"))
        core.classify(ctx, sig, "%s: secret %s (notAfter %s, SANs %s), declared domains %s, acme client outcome %s -> Sign calls %s, secret written %s, changed %s"
                      % (b["inv"], rr["sec"], rr["exp"], rr["sans"], rr["dom"], rr["sign"], x["o"]["signs"], x["o"]["written"], x["o"]["changed"]), d)
    # part B: the queue follows the cluster
    design = core.tlc(ctx, "design-acme", "Acme", None, cfgtext=CFG % ("SpecB", 1, 1, "EmitB"), workers=1, timeout=1800)
    if design["rc"] != 0:
        raise Undecided("history enumeration failed:\n" + design["out"][-2000:])
    hs = behaviours(design["out"])
    ctx.tlc_stats.append(dict(name="histories-exhaustive", module="Acme", cfg="every history of 1 step x <=1 ingress change (+ a late change after a failed update) (3 slots x 13 values) x sync kind x leadership",
                              generated=design["generated"], distinct=design["distinct"], depth=design["depth"], wall_s=round(design["wall"], 1), violated=None))
    ctx.rng.shuffle(hs)
    hs = hs[:1500 if q else 20000]
    for s in range(1 if q else 6):
        r = core.tlc(ctx, "gen-sim%d" % s, "Acme", None, cfgtext=CFG % ("SpecB", 5, 3, "EmitB"), workers=1, timeout=1800,
                     simulate="num=%d" % (250 if q else 1500), depth=24, extra=["-seed", str(ctx.seed * 10 + s)])
        if r["rc"] != 0:
            raise Undecided("history generation failed:\n" + r["out"][-2000:])
        sims = behaviours(r["out"])
        # TLC prints every candidate last step of a simulated behaviour: tens of thousands of histories per run
        ctx.rng.shuffle(sims)
        hs += sims[:2500]
    hin, hout = ctx.path("a", "hist.json"), ctx.path("a", "hist.ndjson")
    json.dump(hs, open(hin, "w"))
    # every controller instance leaves 1-2 MB behind in the process (see ctl.run_histories): chunks
    with open(hout, "w") as fo:
        for ci in range(0, len(hs), 2500):
            cin, cout = ctx.path("a", "hist-%d.json" % ci), ctx.path("a", "hist-%d.ndjson" % ci)
            json.dump(hs[ci:ci + 2500], open(cin, "w"))
            core.run([os.path.join(ctx.bindir, "acmex"), "-mode", "hist", "-in", cin, "-out", cout, "-work", ctx.path("a", "wh", "x"), "-par", str(core.NCPU)],
                     timeout=3300, env=dict(VERIF_REPO=core.REPO))
            fo.write(open(cout).read())
            os.remove(cin)
            os.remove(cout)
    res = judge(ctx, "hist", hout)
    ctx.traces_validated += len(hs)
    evs = core.read_ndjson(hout)
    steps = {(x["id"], x["step"]): x for x in evs if x["ev"] == "Step"}
    cover = dict(leader_partial=0, leader_full=0, nonleader=0, adds=0, dels=0)
    for x in steps.values():
        st = x["st"]
        cover["nonleader" if not st["leader"] else ("leader_full" if st["full"] else "leader_partial")] += 1
        cover["adds"] += bool(x["adds"])
        cover["dels"] += bool(x["dels"])
    if min(cover.values()) < 50:
        raise Undecided("histories too poor to decide anything: %s" % cover)
    seen = set()
    for b in sorted(res["bad"], key=lambda b: (b["step"], b["id"])):
        x = steps[(b["id"], b["step"])]
        sig = "%s:%s" % (b["inv"], "full" if x["st"]["full"] else "partial")
        if sig in seen:
            continue
        seen.add(sig)
        hid = int(b["id"][1:])
        hf = ctx.path("viol", b["id"] + ".acmehist.json")
        json.dump([hs[hid][:b["step"] + 1]], open(hf, "w"), indent=1)
        tf = ctx.path("viol", b["id"] + ".trace.ndjson")
        core.write_ndjson(tf, [steps[(b["id"], s)] for s in range(b["step"] + 1)])
        d = core.save_replay(ctx, sig, [hf, tf], dict(invariant=b["inv"], step=b["step"], history=b["id"], how="harness/cmd/acmex -mode hist"))
        prev = steps.get((b["id"], b["step"] - 1))
        core.classify(ctx, sig, "%s at step %d of history %s (%s sync, leader=%s): ingresses before %s, after %s; queue adds %s, removes %s"
                      % (b["inv"], b["step"], b["id"], "full" if x["st"]["full"] else "partial", x["st"]["leader"],
                         json.dumps(prev["st"]["ing"]) if prev else "none", json.dumps(x["st"]["ing"]), json.dumps(x["adds"]), json.dumps(x["dels"])), d)
    core.write_evidence(ctx, [recs["r0"], steps[("h0", 0)]], extra=dict(decision_rows=len(rows), histories=len(hs), steps=len(steps), coverage=cover,
                        bounds="part A: secret {absent, without tls.crt, unparsable, certificate} x notAfter {expired, 10 days inside the 30 day window, 30 s inside, "
                               "30 s outside, 60 days outside} x SANs {a, a+b, a+b+w.sub, *.local, *.local+w.sub} x declared domains {a, b, a+b, a+b+w.sub} x acme "
                               "client outcome {ok, ok with warning, error, certificate only, key only}; part B: 3 ingress slots x (secret s1/s2 x hosts a/b/a+b x "
                               "cert-signer / tls-acme annotation / none | absent) x --acme-track-tls-annotation, batches of <=3 changes, partial / full resync, leader / not leader per step (real leader elector over an "
                               "in-memory lease), exhaustive for 1 step x 1 change, simulated for 5 steps"),
                        assumptions=["the acme client is a stub (hook H4): the ACME protocol itself is not exercised",
                                     "the queue behind the facade records Add/Remove; it does not run the signer",
                                     "acquiring the lease is followed by a full resync, as IngressReconciler.leaderChanged enqueues one"])
