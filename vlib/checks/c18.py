"""C18 — external authentication fails closed."""
import json, os, re
from .. import core
from ..core import Undecided

CFG = "SPECIFICATION %s\nINVARIANTS\n    %s\nCHECK_DEADLOCK FALSE\n"


def run(ctx):
    core.build_harness(ctx, ["authx"])
    r = core.tlc(ctx, "gen", "AuthFail", None, cfgtext=CFG % ("Spec", "Emit"), workers=1, timeout=900)
    if r["rc"] != 0:
        raise Undecided("enumeration failed:\n" + r["out"][-2000:])
    ctx.tlc_stats.append(dict(name="enumerate", module="AuthFail", cfg="product of annotation values", generated=r["generated"],
                              distinct=r["distinct"], depth=r["depth"], wall_s=round(r["wall"], 1), violated=None))
    cases = core.behaviours_from_print(r["out"])
    nbase, nextra = 10 * 4 * 2 * 3 * 2 * 3 * 2 * 2 * 2, 4 * 2 * 2 * 2 * 2 * 3 * 2
    if len(cases) != nbase + nextra - 4 * 2 * 2:
        raise Undecided("expected %d cases, TLC printed %d" % (nbase + nextra - 16, len(cases)))
    inp = ctx.path("a", "in.json")
    out = ctx.path("a", "trace.ndjson")
    json.dump(cases, open(inp, "w"))
    core.run([os.path.join(ctx.bindir, "authx"), "-in", inp, "-out", out, "-work", ctx.path("a", "w", "x")], timeout=3000,
             env=dict(VERIF_REPO=core.REPO))
    n = core.count_lines(out)
    r = core.tlc(ctx, "judge", "TraceAuth", None, cfgtext=CFG % ("TraceSpec", "Result"), workers=1, timeout=3000, files={out: "trace.ndjson"})
    m = re.findall(r'<<"RESULT", "(.*)">>', r["out"])
    if r["rc"] != 0 or not m:
        raise Undecided("trace judgement did not complete:\n" + r["out"][-3000:])
    res = json.loads(m[-1].replace('\\"', '"'))
    if res["n"] != n:
        raise Undecided("consumed %d of %d" % (res["n"], n))
    ctx.trace_events += n
    ctx.traces_validated += n
    recs = {x["id"]: x for x in core.read_ndjson(out)}
    seen = set()
    for b in sorted(res["bad"], key=lambda b: b["id"]):
        c = b["cs"]
        path = "".join(b["path"])
        sub = "declared-path" if path == "/app" else "sub-path"
        if b["inv"] == "RightService":
            sig = "RightService:%s:%s:%s" % (c["placement"], c["url"], c["oauth"])
        elif c["placement"] == "frontend":
            sig = "FailClosed:frontend:%s:%s" % ("non-exact" if c["ptype"] != "exact" else "exact", sub)
        else:
            sig = "FailClosed:backend:%s:%s:%s" % (c["url"], c["oauth"], sub)
        if b.get("alias"):
            sig += ":through-alias"
        at_frontend = c["placement"] == "frontend" and c.get("src") == "ingress" and c.get("elder") != "backend"
        if b["inv"] == "RightService":
            pass
        elif (c.get("src"), c.get("oprefix"), c.get("elder")) != ("ingress", "default", "none") and not at_frontend:
            # (a guard that really is placed in the frontend has the listed flaws F5 / F41 whatever these dimensions say)
            sig += ":%s:%s:%s" % (c.get("src"), c.get("oprefix"), c.get("elder"))
        if sig in seen:
            continue
        seen.add(sig)
        rf = ctx.path("viol", b["id"] + ".json")
        json.dump(recs[b["id"]], open(rf, "w"), indent=1)
        d = core.save_replay(ctx, sig, [rf], dict(invariant="FailClosed", case=c, request=path))
        who = "b.local%s or x.alt.local%s (server-alias / server-alias-regex of a.local)".replace("%s or", "%%s or", 0) if False else ("<alias>%s (b.local = server-alias, x.alt.local = server-alias-regex of a.local)" if b.get("alias") else "a.local%s")
        what = (" is intercepted by a call to another service than the one its path declares; case %s; " if b["inv"] == "RightService"
                else " reaches the protected path without a covering deny/auth-intercept; case %s; ")
        core.classify(ctx, sig, (b["inv"] + ": request " + who + what + "frontend rules %s; backend rules %s") % (path, c, [a["raw"] for a in recs[b["id"]]["front"]][:3],
                                                                [a["raw"] for a in recs[b["id"]]["backend"]["auth"]][:3]), d)
    guarded = sum(1 for x in recs.values() if x["front"] or x["backend"]["auth"])
    core.write_evidence(ctx, [dict(case=recs["c5"]["cs"], backend_rules=[a["raw"] for a in recs["c5"]["backend"]["auth"]],
                                   frontend_rules=[a["raw"] for a in recs["c5"]["front"]])],
                        extra=dict(cases=len(cases), requests_judged=len(cases) * 7, cases_with_auth_rules=guarded, exhaustive=True,
                                   bounds="auth-url in {none, svc ok, http ip ok, https unresolvable, malformed, unknown protocol, missing port, unknown service} x "
                                          "oauth in {none, valid with /oauth2 path, valid without it, invalid implementation} x placement {backend, frontend} x "
                                          "path type {exact, prefix, begin} x external-has-lua x auth-proxy range {default, invalid, exhausted}; the protected "
                                          "path shares its backend with an unprotected one; requests /app /app/x /appx /App /pub /pub/x /other"),
                        assumptions=["ACL semantics as in AuthFail.tla; the Lua script auth-request.lua is not executed: the check stops at "
                                     "'the intercept is attached to the right requests and followed by deny/redirect-unless-successful'"])
