"""C19 — disabled snippet keywords never reach the configuration through annotations."""
import json, os, re, concurrent.futures
from .. import core
from ..core import Undecided

KWLISTS = [["a"], ["ab"], ["*"], ["", "a"], ["a", "ab"], ["b", "A"], []]
# raw values of --disable-config-keywords, parsed by the controller's own command-line handling
KWOPTS = ["a", "b, A", " a ,ab", ",a", "a,", " * ", "ab , b,", "A,,a"]


def cfg(spec, invs, maxlen):
    return "SPECIFICATION %s\nCONSTANTS\n    MaxLen = %d\nINVARIANTS\n%s\nCHECK_DEADLOCK FALSE\n" % (spec, maxlen, "\n".join("    " + i for i in invs))


def judge_chunk(args):
    ctx, i, path = args
    n = core.count_lines(path)
    r = core.tlc(ctx, "judge-%d" % i, "TraceSnippet", None, cfgtext=cfg("TraceSpec", ["Result"], 0), workers=1, timeout=3000,
                 files={path: "trace.ndjson"}, heap="3g")
    m = re.findall(r'<<"RESULT", "(.*)">>', r["out"])
    if r["rc"] != 0 or not m:
        raise Undecided("trace judgement did not complete (chunk %d):\n%s" % (i, r["out"][-2000:]))
    res = json.loads(m[-1].replace('\\"', '"'))
    if res["n"] != n:
        raise Undecided("chunk %d: consumed %d of %d" % (i, res["n"], n))
    return res, n


def run(ctx):
    core.build_harness(ctx, ["snipx"])
    q = ctx.quick()
    maxlen = 4 if q else 6
    r = core.tlc(ctx, "gen", "Snippet", None, cfgtext=cfg("Spec", ["Emit"], maxlen), workers=1, timeout=2400)
    if r["rc"] != 0:
        raise Undecided("enumeration failed:\n" + r["out"][-2000:])
    ctx.tlc_stats.append(dict(name="enumerate", module="Snippet", cfg="texts of length <= %d" % maxlen, generated=r["generated"],
                              distinct=r["distinct"], depth=r["depth"], wall_s=round(r["wall"], 1), violated=None))
    texts = core.behaviours_from_print(r["out"])
    if not texts:
        raise Undecided("TLC enumerated no text")
    if q:
        r5 = core.tlc(ctx, "gen5", "Snippet", None, cfgtext=cfg("Spec", ["Emit"], 5), workers=1, timeout=2400)
        t5 = [t for t in core.behaviours_from_print(r5["out"]) if len(t) == 5]
        ctx.rng.shuffle(t5)
        texts += t5[:1500]
    rm = core.tlc(ctx, "gen-mixed", "Snippet", None, cfgtext=cfg("SpecMixed", ["Emit"], 0), workers=1, timeout=600)
    mixed = core.behaviours_from_print(rm["out"])
    if rm["rc"] != 0 or len(mixed) < 200:
        raise Undecided("TLC enumerated only %d texts with mixed line ends" % len(mixed))
    texts += mixed
    rc = core.tlc(ctx, "gen-comments", "Snippet", None, cfgtext=cfg("SpecComments", ["Emit"], 0), workers=1, timeout=600)
    comments = core.behaviours_from_print(rc["out"])
    if rc["rc"] != 0 or len(comments) < 30:
        raise Undecided("TLC enumerated only %d texts with comment lines" % len(comments))
    texts += comments
    rq = core.tlc(ctx, "gen-quotes", "Snippet", None, cfgtext=cfg("SpecQuotes", ["Emit"], 0), workers=1, timeout=600)
    quotes = core.behaviours_from_print(rq["out"])
    if rq["rc"] != 0 or len(quotes) < 20:
        raise Undecided("TLC enumerated only %d texts with quoted words" % len(quotes))
    texts += quotes
    groups = [dict(kw=k, texts=texts) for k in KWLISTS]
    # the same property with the keyword list given as the raw option value (a smaller text set: all texts of length <= 3 + mixed line ends)
    short = [t for t in texts if len(t) <= 3] + mixed + comments + quotes
    groups += [dict(kw=[], opt=o, texts=short) for o in KWOPTS]
    inp = ctx.path("s", "in.json")
    out = ctx.path("s", "trace.ndjson")
    json.dump(groups, open(inp, "w"))
    p = core.run([os.path.join(ctx.bindir, "snipx"), "-in", inp, "-out", out, "-work", ctx.path("s", "w", "x"), "-batch", "250"],
                 timeout=3400, env=dict(VERIF_REPO=core.REPO))
    nb = json.loads(p.stdout.strip().splitlines()[-1])["backends"]
    lines = open(out).read().splitlines()
    nchunks = min(core.NCPU, max(1, len(lines) // 1500))
    chunks = []
    for i in range(nchunks):
        cp = ctx.path("s", "chunk-%d.ndjson" % i)
        open(cp, "w").write("\n".join(lines[i::nchunks]) + "\n")
        chunks.append((ctx, i, cp))
    bad, total = [], 0
    with concurrent.futures.ThreadPoolExecutor(max_workers=nchunks) as ex:
        for res, n in ex.map(judge_chunk, chunks):
            bad += res["bad"]
            total += n
    ctx.trace_events += total
    ctx.traces_validated += total
    recs = {json.loads(l)["id"]: json.loads(l) for l in lines}
    seen = set()
    for b in sorted(bad, key=lambda b: len(recs[b["id"]]["text"])):
        sig = "%s:%s" % (b["inv"], b["src"])
        if sig in seen:
            continue
        seen.add(sig)
        rf = ctx.path("viol", b["id"] + ".json")
        json.dump(recs[b["id"]], open(rf, "w"))
        d = core.save_replay(ctx, sig, [rf], dict(invariant=b["inv"], case=recs[b["id"]]))
        core.classify(ctx, sig, "%s: snippet %r from %s annotation with disabled keywords %s -> backend lines %s"
                      % (b["inv"], "".join(recs[b["id"]]["text"]), b["src"], ["".join(k) for k in recs[b["id"]]["kw"]],
                         ["".join(x) for x in recs[b["id"]]["lines"]]), d)
    dropped = sum(1 for r in recs.values() if not r["lines"] and any(c not in " \t\n" for c in r["text"]))
    core.write_evidence(ctx, [dict(text="".join(recs[json.loads(lines[-1])["id"]]["text"]), kw=recs[json.loads(lines[-1])["id"]]["kw"],
                                   lines=recs[json.loads(lines[-1])["id"]]["lines"])],
                        extra=dict(texts=len(texts), keyword_lists=KWLISTS, raw_option_values=KWOPTS, backends_checked=nb, snippets_found_dropped=dropped, exhaustive=not q,
                                   bounds="all texts of length <= %d over {space, tab, newline, a, b, A}%s x 7 keyword lists, as Ingress annotation, "
                                          "Service annotation, or both (Service wins)" % (maxlen, " plus 1500 of length 5" if q else "")),
                        assumptions=["snippet lines are recognised in the backend section by their first token being a word over {a,b,A,*}",
                                     "global snippet keys (config-global, config-frontend...) are outside this check; a config-backend set as ConfigMap "
                                     "default is filtered by the code and the existing tests require that"])
