"""Engine of the Controller family (C01 C05 C06 C07 C12 C15 ...): TLC model-checks spec/Controller.tla,
proposes histories of batched Kubernetes changes (exhaustive small + simulated), vlib/universe.py adds seeded
random histories over the extended vocabulary, harness/cmd/ctl runs them on the real pipeline next to freshly
started controllers, and TLC judges every recorded quiescent point (spec/TraceController.tla)."""
import json, os, re
from .. import core, universe as U
from ..core import Undecided


def controller_cfg(slots, tmpls, maxops, maxbatches, invs, spec="Spec", secvals=("absent", "v1", "bad"), epsids=("e1", "e2", "e0"), faults=(), extra=""):
    return """SPECIFICATION %s
CONSTANTS
    Slots = {%s}
    TmplIds = {%s}
    Svcs = {"s1", "s2"}
    EpsIds = {%s}
    Secrets = {"c1", "c2"}
    SecVals = {%s}
    MaxOps = %d
    MaxBatches = %d
    FaultPoints = {%s}
%s
INVARIANTS
%s
CHECK_DEADLOCK FALSE
""" % (spec, ", ".join(str(s) for s in slots), ", ".join('"%s"' % t for t in tmpls), ", ".join('"%s"' % e for e in epsids),
       ", ".join('"%s"' % v for v in secvals), maxops, maxbatches, ", ".join('"%s"' % f for f in faults), extra,
       "\n".join("    " + i for i in invs))


def check_universe():
    p = os.path.join(core.SPEC, "ControllerUniverse.tla")
    if open(p).read() != U.tla_universe():
        raise Undecided("spec/ControllerUniverse.tla is out of sync with vlib/universe.py (run python3 -m vlib.universe)")


def design(ctx):
    check_universe()
    q = ctx.quick()
    core.tlc_design(ctx, "design-controller", "Controller", None,
                    cfgtext=controller_cfg([1, 2], ["t1", "t3", "t5", "t7", "t10", "t11"] if q else U.CORE_NOWILD[:9], 2, 2, ["OracleOK"]),
                    workers=core.NCPU, timeout=2400)


def with_cluster(hid, beh, **kw):
    h = U.tlc_hist_to_history(hid, beh, **kw)
    ing = {"1": "none", "2": "none", "3": "none"}
    eps = {"s1": "e1", "s2": "e2"}
    sec = {"c1": "absent", "c2": "absent"}
    for b, st in zip(beh, h["steps"]):
        for e in b["ops"]:
            if e["k"] == "ing":
                ing[str(e["n"])] = e["v"]
            elif e["k"] == "eps":
                eps[e["n"]] = e["v"]
            else:
                sec[e["n"]] = e["v"]
        st["cluster"] = dict(ing=dict(ing), eps=dict(eps), sec=dict(sec))
    return h


def tlc_histories(ctx, n, maxops=3, maxbatches=3, tmpls=None, tag="sim", opts=None, secvals=("absent", "v1", "v2", "bad"), faults=(),
                  epsids=("e0", "e1", "e2", "e4")):
    """Histories proposed by TLC (-simulate over Controller!Next)."""
    tmpls = tmpls or U.CORE_NOWILD
    r = core.tlc(ctx, "gen-" + tag, "Controller", None,
                 cfgtext=controller_cfg([1, 2, 3], tmpls, maxops, maxbatches, ["EmitBehaviour"], secvals=secvals,
                                        epsids=epsids, faults=faults),
                 workers=1, timeout=1800, simulate="num=%d" % n, depth=maxbatches * (maxops + 1) + 1,
                 extra=["-seed", str(ctx.seed)])
    if r["rc"] != 0:
        raise Undecided("history generation failed:\n" + r["out"][-2000:])
    behs = core.behaviours_from_print(r["out"])
    if not behs:
        raise Undecided("TLC proposed no history")
    seen, hs = set(), []
    for b in behs:
        k = json.dumps(b, sort_keys=True)
        if k in seen:
            continue
        seen.add(k)
        opt = None
        if opts:
            opt = dict(opts[len(hs) % len(opts)])
        hs.append(with_cluster("tlc-%s-%d" % (tag, len(hs)), b, opt=opt, fullfirst=(len(hs) % 2 == 1)))
    return hs


def tlc_exhaustive(ctx, slots, tmpls, maxops, maxbatches, tag="ex", opts=None):
    r = core.tlc(ctx, "gen-" + tag, "Controller", None,
                 cfgtext=controller_cfg(slots, tmpls, maxops, maxbatches, ["EmitBehaviour"], secvals=("absent", "v1"),
                                        epsids=("e1", "e2")),
                 workers=1, timeout=2400)
    if r["rc"] != 0:
        raise Undecided("history generation failed:\n" + r["out"][-2000:])
    ctx.tlc_stats.append(dict(name="gen-" + tag, module="Controller", cfg="exhaustive %d batches x %d ops" % (maxbatches, maxops),
                              generated=r["generated"], distinct=r["distinct"], depth=r["depth"], wall_s=round(r["wall"], 1), violated=None))
    behs = core.behaviours_from_print(r["out"])
    hs = []
    for i, b in enumerate(behs):
        opt = dict(opts[i % len(opts)]) if opts else None
        hs.append(with_cluster("tlc-%s-%d" % (tag, i), b, opt=opt))
    return hs


def run_histories(ctx, hs, tag, fresh=1, facts=False, timeout=3400):
    """Runs the histories on the real pipeline.  Every controller instance leaves about 1-2 MB behind in the process (collectors
    registered for good by the metrics of the controller), so the histories go through harness/cmd/ctl in chunks."""
    inp = ctx.path("ctl", tag + ".json")
    out = ctx.path("ctl", tag + ".ndjson")
    json.dump(hs, open(inp, "w"))
    CH = 2500
    with open(out, "w") as fo:
        for ci in range(0, len(hs), CH):
            cin = ctx.path("ctl", "%s-chunk%d.json" % (tag, ci // CH))
            cout = ctx.path("ctl", "%s-chunk%d.ndjson" % (tag, ci // CH))
            json.dump(hs[ci:ci + CH], open(cin, "w"))
            cmd = [os.path.join(ctx.bindir, "ctl"), "-in", cin, "-out", cout, "-work", ctx.path("ctl", "w" + tag, "x"),
                   "-fresh", str(fresh), "-seed", str(ctx.seed), "-par", str(core.NCPU)]
            if facts:
                cmd.append("-facts")
            p = core.run(cmd, timeout=timeout, env=dict(VERIF_REPO=core.REPO))
            st = json.loads(p.stdout.strip().splitlines()[-1])
            ctx.traces_validated += st["histories"]
            fo.write(open(cout).read())
            os.remove(cout)
            os.remove(cin)
    return out, inp


def judge(ctx, tracefile, tag, module="TraceController"):
    n = core.count_lines(tracefile)
    cfg = controller_cfg([1, 2, 3], list(U.ING), 0, 0, ["Result"], spec="TraceSpec", secvals=("absent", "v1", "v2", "bad", "w1", "w2"),
                         epsids=tuple(U.EPS))
    r = core.tlc(ctx, "judge-" + tag, module, None, cfgtext=cfg, workers=1, timeout=3000, files={tracefile: "trace.ndjson"},
                 heap="8g")
    m = re.findall(r'<<"RESULT", "(.*)">>', r["out"])
    if r["rc"] != 0 or not m:
        raise Undecided("trace judgement did not complete (%s):\n%s" % (tag, r["out"][-3000:]))
    res = json.loads(m[-1].replace('\\"', '"'))
    if res["n"] != n:
        raise Undecided("trace judgement consumed %d of %d lines" % (res["n"], n))
    ctx.trace_events += n
    return res


def diff_class(diff):
    """Coarse class of a normal-form difference, part of a finding's signature."""
    cls = set()
    for d in diff:
        key = d.split(": ", 1)[0]
        if key.startswith("m:"):
            base = key.rsplit("/", 1)[-1]
            if "crt" in base:
                cls.add("crtlist")
            elif "_front_redir_from" in base:
                cls.add("redirect-from")
            elif "_idpath" in base:
                cls.add("pathid-map")
            else:
                cls.add("routing-map")
        elif "(only in" in d:
            cls.add("section-set")
        elif key.startswith("s:backend"):
            cls.add("backend-lines")
        elif key.startswith("s:frontend") or key.startswith("s:listen"):
            cls.add("frontend-lines")
        else:
            cls.add("other-section")
    return "+".join(sorted(cls)) or "none"


def op_kinds(ops):
    ks = set()
    for o in ops:
        f = o.split(":")
        k = f[0]
        if f[-1] == "del":
            k += "-del"
        ks.add(k)
    return "+".join(sorted(ks))


def stable_divergence(ctx, h, upto, exact=False):
    """A Converged failure only counts when it is not an effect of nondeterminism (that is C06's subject):
    the history is re-run 6 times next to 4 fresh controllers each; it is stable when every run diverges and
    all fresh controllers of all runs agree."""
    import copy
    hs = []
    for i in range(6):
        c = copy.deepcopy(h)
        c["id"] = "%s~%d" % (h["id"], i)
        c["steps"] = c["steps"][:upto + 1]
        for st in c["steps"]:
            st.pop("cluster", None)
        hs.append(c)
    out, _ = run_histories(ctx, hs, "confirm-" + re.sub(r"\W", "_", h["id"]), fresh=4)
    ctx.traces_validated -= len(hs)
    last = [e for e in core.read_ndjson(out) if e["ev"] == "State" and e["step"] == upto]
    fk, ik = ("freshx", "incx") if exact else ("fresh", "inc")
    fresh = {d for e in last for d in e[fk]}
    return len(fresh) == 1 and all(e[ik] not in fresh for e in last)


def reproduced(ctx, h, upto, pred, runs=3):
    """Verdicts that rest on real time (the reload queue runs on its own goroutine and clock) are taken from a reproduction only:
    the history is run again, alone, up to `runs` times; the failure counts when it shows again at the same batch."""
    import copy
    done = 0
    for i in range(runs + 2):
        if done >= runs:
            break
        c = copy.deepcopy(h)
        c["id"] = "%s~r%d" % (h["id"], i)
        c["steps"] = c["steps"][:upto + 1]
        try:
            out, _ = run_histories(ctx, [c], "repro-" + re.sub(r"\W", "_", c["id"]), fresh=1)
        except Undecided as e:
            # a run that could not be completed decides nothing: it is tried again (two spare attempts)
            ctx.notes.append("reproduction run of %s did not complete: %s" % (c["id"], str(e)[-300:]))
            continue
        done += 1
        ctx.traces_validated -= 1
        last = [e for e in core.read_ndjson(out) if e["ev"] == "State" and e["step"] == upto]
        if last and pred(last[0]):
            return True
    if done == 0:
        raise Undecided("no reproduction run of history %s completed" % h["id"])
    return False


def report(ctx, res, events_file, hist_file, invs, extra_sig=None, confirm=True):
    """Turns TLC's verdicts into VIOLATION / KNOWN-FINDING lines with replay artefacts."""
    events = core.read_ndjson(events_file)
    hs = {h["id"]: h for h in json.load(open(hist_file))}
    byid = {}
    for e in events:
        byid.setdefault(e["tr"], []).append(e)
    mine = [b for b in res["bad"] if b["inv"] in invs]
    if os.environ.get("VERIF_FORCE_REPRO") and "RunningOK" in invs:
        # self-test of the reproduction step: re-run some queue-mode histories alone
        qs = [h for h in hs.values() if h["opt"].get("reloadinterval_ms") and any(st.get("faults") for st in h["steps"])][:int(os.environ["VERIF_FORCE_REPRO"])]
        for h in qs:
            reproduced(ctx, h, len(h["steps"]) - 1, lambda x: not x["runeq"], runs=1)
        core.log("reproduction self-test: %d histories re-run alone" % len(qs))
    # first failing step of each history only: later steps inherit the damage
    firsts = {}
    for b in sorted(mine, key=lambda b: b["step"]):
        firsts.setdefault((b["tr"], b["inv"]), b)
    done = {}
    for (tr, inv), b in sorted(firsts.items(), key=lambda kv: (len(hs[kv[0][0]]["steps"]), kv[1]["step"])):
        e = [x for x in byid[tr] if x.get("step") == b["step"] and x["ev"] == "State"][0]
        d = e["diff"] if inv != "Deterministic" else e["fdiff"]
        if inv == "DiskIsModel":
            d = e.get("slots", [])
        sig = "%s:%s:%s" % (inv, diff_class(d), op_kinds(e["ops"]))
        if extra_sig:
            sig = extra_sig(sig, e, hs[tr])
        # one instance per signature is examined and reported (the shortest history first)
        if done.get(sig, 0) >= 1:
            done[sig] += 1
            continue
        if inv == "DiskExact" and confirm and not stable_divergence(ctx, hs[tr], b["step"], exact=True):
            # (e.g. the same server-alias on two hosts with overlapping paths: how the entries are spread over priority match files follows
            # the iteration order of a map, in fresh controllers as well)
            ctx.notes.append("history %s batch %d: freshly started controllers do not agree on the exact files themselves (nondeterminism, judged by C06), not counted" % (tr, b["step"]))
            continue
        if inv in ("Converged", "ModelConverged") and confirm and not stable_divergence(ctx, hs[tr], b["step"]):
            ctx.notes.append("history %s batch %d: divergence not stable across runs (nondeterminism, judged by C06), not counted" % (tr, b["step"]))
            continue
        if inv == "RunningOK" and hs[tr]["opt"].get("reloadinterval_ms") and not reproduced(ctx, hs[tr], b["step"], lambda x: not x["runeq"]):
            ctx.notes.append("history %s batch %d: the running table lagging behind the files did not show again in 3 runs of the history alone "
                             "(the queued reload ran late on a loaded machine), not counted" % (tr, b["step"]))
            continue
        done[sig] = 1
        hf = ctx.path("viol", tr + ".history.json")
        json.dump([hs[tr]], open(hf, "w"), indent=1)
        tf = ctx.path("viol", tr + ".trace.ndjson")
        core.write_ndjson(tf, byid[tr])
        rd = core.save_replay(ctx, sig, [hf, tf], dict(invariant=inv, step=b["step"], history=tr, diff=d[:12],
                                                        how="bin/verif replay <this dir>"))
        core.classify(ctx, sig, "%s violated after batch %d of history %s (ops %s): %s"
                      % (inv, b["step"], tr, ",".join(e["ops"])[:200], "; ".join(d)[:400]), rd)
    ctx.finding_counts = done
    return events
