"""Engine shared by C02 (running == disk after runtime updates) and C11 (no needless reloads).

TLC model-checks spec/DynUpdate.tla (slot pairing, alignSlots, reload decision vs the layer A properties),
proposes update behaviours (exhaustive depth 2, simulated deeper), harness/cmd/dynupd runs them and seeded random
ones (naming modes, cookies, certificate rotation, fault kinds) on the real pipeline + simulated HAProxy,
and TLC judges the recorded updates (spec/TraceDynUpdate.tla).
"""
import json, os, re
from .. import core
from ..core import Undecided

C02_INVS = {"RunningMatchesDisk", "FailureImpliesReload"}
C11_INVS = {"NoNeedlessReload", "NoopIsNoop", "SlotsAfterReload"}
DESIGN_INVS = ["RunningMatchesDisk", "FailureImpliesReload", "NoNeedlessReload", "NoopIsNoop", "SlotsAfterReload",
               "ModelIsFile", "NamesUnique"]


def cfg(targets, minfree, block, maxupd, maxfault, invs, view=True, spec="Spec"):
    return """SPECIFICATION %s
CONSTANTS
    Targets = {%s}
    Weights = {0, 1}
    MinFree = %d
    Block = %d
    MaxUpdates = %d
    MaxFault = %d
INVARIANTS
%s
%sCHECK_DEADLOCK FALSE
""" % (spec, ", ".join(str(t) for t in range(1, targets + 1)), minfree, block, maxupd, maxfault,
       "\n".join("    " + i for i in invs), "VIEW NoHist\n" if view else "")


def design(ctx):
    q = ctx.quick()
    runs = [(3, 1, 2, 3, 2)] if q else [(3, 1, 2, 4, 4), (3, 0, 1, 3, 2), (3, 2, 3, 3, 2), (4, 1, 2, 2, 2), (3, 0, 3, 3, 2)]
    for (t, mf, bl, mu, mfault) in runs:
        core.tlc_design(ctx, "design-t%dm%db%du%d" % (t, mf, bl, mu), "DynUpdate", None,
                        cfgtext=cfg(t, mf, bl, mu, mfault, DESIGN_INVS), workers=core.NCPU, timeout=2400)


def generate(ctx):
    """TLC-proposed behaviours: exhaustive at depth 2 for one configuration, simulated deeper for several."""
    behs = []
    q = ctx.quick()
    plan = [("ex", 3, 1, 2, 2, 4, None)]
    sims = [(4, 0, 1), (4, 2, 3), (4, 1, 1), (4, 3, 2)] if q else [(4, 0, 1), (4, 2, 3), (4, 1, 1), (4, 3, 2), (5, 0, 4), (5, 1, 2)]
    for (t, mf, bl) in sims:
        plan.append(("sim", t, mf, bl, 6 if q else 8, 7, 60 if q else 500))
    if not q:
        plan.append(("ex", 3, 0, 1, 2, 4, None))
        plan.append(("ex", 3, 2, 3, 2, 4, None))
    for n, (kind, t, mf, bl, mu, mfault, num) in enumerate(plan):
        kw = dict(workers=1, timeout=1800)
        if kind == "sim":
            kw.update(simulate="num=%d" % num, depth=mu + 1, extra=["-seed", str(ctx.seed + n)])
        r = core.tlc(ctx, "gen-%d" % n, "DynUpdate", None, cfgtext=cfg(t, mf, bl, mu, mfault, ["EmitBehaviour"], view=False), **kw)
        if r["rc"] != 0:
            raise Undecided("behaviour generation failed:\n" + r["out"][-2000:])
        if kind == "ex":
            ctx.tlc_stats.append(dict(name="gen-%d" % n, module="DynUpdate", cfg="exhaustive depth %d" % mu,
                                      generated=r["generated"], distinct=r["distinct"], depth=r["depth"],
                                      wall_s=round(r["wall"], 1), violated=None))
        hs = core.behaviours_from_print(r["out"])
        seen = set()
        for h in hs:
            key = json.dumps(h, sort_keys=True)
            if key in seen:
                continue
            seen.add(key)
            kinds = ["nosuch", "garbage", "drop", "dropafter"]
            steps = [dict(eps=s["eps"], fault=s["fault"], faultkind=kinds[(len(behs) + i) % 4], crt=0)
                     for i, s in enumerate(h)]
            behs.append(dict(id="tlc-%s%d-%d" % (kind, n, len(behs)), minfree=mf, block=bl, naming="", cookie="",
                             tls=False, auth="", steps=steps, origin=kind))
            # the same behaviour on ssl-passthrough hosts (tcp mode backends) and with dynamic-scaling=false
            if len(behs) % 6 == 0:
                behs.append(dict(behs[-1], id=behs[-1]["id"] + "-pt", passthru=True))
            elif len(behs) % 6 == 3:
                behs.append(dict(behs[-1], id=behs[-1]["id"] + "-st", static=True))
        if not hs:
            raise Undecided("TLC proposed no behaviour (plan %d)" % n)
    return behs


def run_engine(ctx, invs):
    core.build_harness(ctx, ["dynupd"])
    design(ctx)
    behs = generate(ctx)
    if ctx.quick() and len(behs) > 3500:
        ex = [b for b in behs if b["origin"] == "ex"]
        ctx.rng.shuffle(ex)
        behs = ex[:3000] + [b for b in behs if b["origin"] != "ex"]
    inp = ctx.path("dyn", "behaviours.json")
    out = ctx.path("dyn", "trace.ndjson")
    json.dump(behs, open(inp, "w"))
    nrand = 400 if ctx.quick() else 8000
    p = core.run([os.path.join(ctx.bindir, "dynupd"), "-in", inp, "-out", out, "-work", ctx.path("dyn", "w", "x"),
                  "-seed", str(ctx.seed), "-random", str(nrand), "-par", str(core.NCPU)],
                 timeout=3000, env=dict(VERIF_REPO=core.REPO))
    st = json.loads(p.stdout.strip().splitlines()[-1])
    n = core.count_lines(out)
    r = core.tlc(ctx, "judge", "TraceDynUpdate", None, cfgtext=cfg(3, 0, 1, 0, 0, ["Result"], view=False, spec="TraceSpec"),
                 workers=1, timeout=3000, files={out: "trace.ndjson"})
    m = re.findall(r'<<"RESULT", "(.*)">>', r["out"])
    if r["rc"] != 0 or not m:
        raise Undecided("trace judgement did not complete:\n" + r["out"][-3000:])
    res = json.loads(m[-1].replace('\\"', '"'))
    if res["n"] != n:
        raise Undecided("trace judgement consumed %d of %d lines" % (res["n"], n))
    ctx.trace_events += n
    ctx.traces_validated += st["behaviours"]
    events = core.read_ndjson(out)
    byid = {}
    for e in events:
        byid.setdefault(e["tr"], []).append(e)
    mine = [b for b in res["bad"] if b["inv"] in invs]
    for b in sorted(mine, key=lambda b: (len(byid[b["tr"]]), b["step"])):
        evs = byid[b["tr"]]
        e = [x for x in evs if x.get("step") == b["step"]][0]
        fk = ""
        for c in e["cmds"]:
            if "connection closed" in c:
                fk = "drop"
        cfgev = [x for x in evs if x["ev"] == "Reset"][0]
        sig = "%s:%s" % (b["inv"], fk or ("fault" if e["faulted"] else "nofault"))
        if cfgev.get("auth"):
            sig += ":auth-url-" + cfgev["auth"]
        tf = ctx.path("viol", b["tr"] + ".ndjson")
        core.write_ndjson(tf, evs)
        d = core.save_replay(ctx, sig, [tf], dict(invariant=b["inv"], step=b["step"], trace=b["tr"],
                                                   how="bin/verif replay <this dir> re-runs the behaviour and the judgement"))
        core.classify(ctx, sig, "%s violated at update %d of %s: eps=%s cmds=%s reloads=%d"
                      % (b["inv"], b["step"], b["tr"], json.dumps(e["eps"]), json.dumps(e["cmds"])[:300], e["reloads"]), d)
    drift = [d for d in res["drift"]]
    if drift:
        ctx.notes.append("drift: %d traces left layer B (first %s); verdict rests on layer A" % (len(drift), json.dumps(drift[0])))
    nupd = sum(1 for e in events if e["ev"] == "Update")
    ndyn = sum(1 for e in events if e["ev"] == "Update" and e["reloads"] == 0 and e["ncmd"] > 0)
    nfault = sum(1 for e in events if e["ev"] == "Update" and e["faulted"])
    sample = [dict(trace=evs[0]["tr"], updates=[dict(eps=x["eps"], fault=x["fault"], reloads=x["reloads"], ncmd=x["ncmd"])
                                                for x in evs if x["ev"] == "Update"]) for evs in list(byid.values())[:3]]
    core.write_evidence(ctx, sample, extra=dict(
        behaviours_from_tlc=len(behs), behaviours_random=nrand, updates=nupd, dynamic_updates=ndyn, faulted_updates=nfault,
        drift=bool(drift), drift_traces=len(drift), invariants=sorted(invs),
        bounds="design: 3-4 targets, weights {0,1}, <=4 updates, min-free 0..2, increment 1..3, fault at command 0..3; "
               "replay: all 2-update behaviours over 3 targets (fault at 0..3), simulated 6-8 updates over 4-5 targets, "
               "random: 2..8 targets, naming seq/ip/pod, cookie none/insert/preserve, certificate rotation, 5 fault kinds"),
        assumptions=["HAProxy is simulated (harness/hasim): `set server`, `set ssl cert`, `commit ssl cert`, master `reload`/`show proc` "
                     "answered as documented; drain == weight 0; disabled slots compare by name only",
                     "no reload queue (reloads happen inside the update), reloads succeed (failed reloads belong to C12)"])
