"""Shared machinery of the /verif checks: scratch dirs, harness build, TLC runs,
trace validation, known findings, evidence files, verdict lines.

Exit codes (DESIGN.md 5.1): 0 held / 1 VIOLATION / 2 undecided (machinery problem).
"""
import json, os, re, shutil, subprocess, sys, time, hashlib, random

VERIF = os.path.dirname(os.path.dirname(os.path.abspath(__file__)))
REPO = os.environ.get("VERIF_REPO", "/repo")
SPEC = os.path.join(VERIF, "spec")
HARNESS = os.path.join(VERIF, "harness")
# Scratch directory. No dot may appear in its path: the controller derives map file names by replacing the first "." of the
# full path. When this copy of /verif lives under a dotted path (a snapshot under ~/.vp/...), scratch goes to /tmp instead
# (nothing a registered command needs is kept there: it is created and removed by each run).
WORKROOT = os.environ.get("VERIF_WORK") or os.path.join(VERIF, "_work")
if "." in WORKROOT:
    WORKROOT = "/tmp/verif_work_%d" % os.getuid()
REPLAYS = os.path.join(VERIF, "_work", "replays")
TLA_CP = "/opt/veriftools/tla/tla2tools.jar:/opt/veriftools/tla/CommunityModules-deps.jar"
NCPU = os.cpu_count() or 4

GOENV = dict(GOFLAGS="-mod=mod", GOPROXY="off", GOSUMDB="off", GOTOOLCHAIN="local",
             CGO_ENABLED="0")


class Undecided(Exception):
    """The machinery could not decide (exit 2); never a violation."""


class Ctx:
    def __init__(self, pid, tier, seed):
        self.pid = pid
        self.tier = tier
        self.seed = seed
        self.t0 = time.time()
        self.rng = random.Random(seed)
        self.work = os.path.join(WORKROOT, "%s-%s-%d" % (pid, tier, os.getpid()))
        shutil.rmtree(self.work, ignore_errors=True)
        os.makedirs(self.work)
        self.bindir = os.path.join(self.work, "bin")
        self.violations = []      # list of dict(signature, desc, replay)
        self.known_seen = []      # signatures of open known findings observed
        self.notes = []
        self.keep = False
        self.tlc_stats = []       # one dict per design-level TLC run
        self.traces_validated = 0
        self.trace_events = 0

    def path(self, *a):
        p = os.path.join(self.work, *a)
        os.makedirs(os.path.dirname(p), exist_ok=True)
        return p

    def quick(self):
        return self.tier != "thorough"

    def cleanup(self):
        if not self.keep and not os.environ.get("VERIF_KEEP"):
            shutil.rmtree(self.work, ignore_errors=True)


def log(*a):
    print(*a, file=sys.stderr, flush=True)


def run(cmd, cwd=None, env=None, timeout=None, stdout=None, check=True, input=None):
    e = dict(os.environ)
    if env:
        e.update(env)
    t0 = time.time()
    p = subprocess.run(cmd, cwd=cwd, env=e, timeout=timeout, stdout=stdout or subprocess.PIPE,
                       stderr=subprocess.STDOUT, text=True, input=input)
    if time.time() - t0 > 5:
        log("%.0fs: %s" % (time.time() - t0, " ".join(cmd)[:160]))
    if check and p.returncode != 0:
        raise Undecided("command failed (%d): %s\n%s" % (p.returncode, " ".join(cmd), (p.stdout or "")[-4000:]))
    return p


# ---------------------------------------------------------------- harness build

def build_harness(ctx, cmds, race=False):
    """Builds harness commands against /repo's current working tree with -tags verif."""
    os.makedirs(ctx.bindir, exist_ok=True)
    shutil.copyfile(os.path.join(REPO, "go.sum"), os.path.join(HARNESS, "go.sum"))
    env = dict(GOENV)
    modfile = None
    if os.path.realpath(REPO) != "/repo":
        # another tree (a scratch worktree with a seeded change): same harness, other replace target
        modfile = os.path.join(ctx.work, "alt.mod")
        txt = open(os.path.join(HARNESS, "go.mod")).read().replace("=> /repo", "=> " + os.path.realpath(REPO))
        open(modfile, "w").write(txt)
        shutil.copyfile(os.path.join(REPO, "go.sum"), os.path.join(ctx.work, "alt.sum"))
    if race:
        env["CGO_ENABLED"] = "1"
    for c in cmds:
        out = os.path.join(ctx.bindir, c + ("-race" if race else ""))
        args = ["go", "build", "-tags", "verif", "-o", out]
        if race:
            args.append("-race")
        if modfile:
            args.append("-modfile=" + modfile)
        args.append("./cmd/" + c)
        t = time.time()
        p = run(args, cwd=HARNESS, env=env, timeout=1500, check=False)
        if p.returncode != 0:
            raise Undecided("harness build failed for %s against %s:\n%s" % (c, REPO, p.stdout[-6000:]))
        log("built %s in %.1fs" % (c, time.time() - t))
    return ctx.bindir


# ---------------------------------------------------------------- TLC

_re_states = re.compile(r"(\d+) states generated, (\d+) distinct states found, (\d+) states left on queue")
_re_depth = re.compile(r"The depth of the complete state graph search is (\d+)")
_re_inv = re.compile(r"Error: Invariant (\S+) is violated")
_re_prop = re.compile(r"Error: (?:Action|Temporal) property (\S+) is violated|Error: Temporal properties were violated")


def spec_scratch(ctx, name):
    """Copies /verif/spec into a scratch dir (TLC litters)."""
    d = ctx.path("tlc-" + name, "x")
    d = os.path.dirname(d)
    for f in os.listdir(SPEC):
        if f.endswith(".tla"):
            shutil.copy(os.path.join(SPEC, f), d)
    return d


def tlc(ctx, name, module, cfgfile, workers="auto", timeout=600, simulate=None, depth=None,
        extra=None, files=None, heap=None, deque=False, coverage=False, defines=None, cfgtext=None):
    """Runs TLC. Returns dict(rc, out, generated, distinct, depth, invariant, ok)."""
    d = spec_scratch(ctx, name)
    if cfgtext is None:
        cfgtext = open(os.path.join(SPEC, "cfg", cfgfile)).read()
    if defines:
        for k, v in defines.items():
            cfgtext = re.sub(r"(?m)^(\s*%s\s*=\s*).*$" % re.escape(k), lambda m: m.group(1) + str(v), cfgtext)
    open(os.path.join(d, "run.cfg"), "w").write(cfgtext)
    for src, dst in (files or {}).items():
        shutil.copy(src, os.path.join(d, dst))
    java = ["java", "-XX:+UseParallelGC", "-Xss64m"]
    if heap:
        java.append("-Xmx" + heap)
    if deque:
        java.append("-Dtlc2.tool.queue.IStateQueue=StateDeque")
    cmd = java + ["-cp", TLA_CP, "tlc2.TLC", "-metadir", os.path.join(d, "meta"),
                  "-config", "run.cfg", "-workers", str(workers), "-noGenerateSpecTE"]
    if simulate:
        cmd += ["-simulate", simulate]
    if depth:
        cmd += ["-depth", str(depth)]
    if coverage:
        cmd += ["-coverage", "1"]
    if not simulate:
        cmd += ["-deadlock"] if False else []
    cmd += (extra or [])
    cmd.append(module)
    outp = os.path.join(d, "tlc.out")
    t = time.time()
    with open(outp, "w") as fh:
        try:
            p = subprocess.run(cmd, cwd=d, stdout=fh, stderr=subprocess.STDOUT, timeout=timeout)
            rc = p.returncode
        except subprocess.TimeoutExpired:
            subprocess.run(["pkill", "-f", os.path.join(d, "meta")])
            rc = -9
    out = open(outp, errors="replace").read()
    if time.time() - t > 5:
        log("%.0fs: tlc %s %s" % (time.time() - t, module, name))
    res = dict(rc=rc, out=out, outfile=outp, dir=d, wall=time.time() - t, generated=0, distinct=0, depth=0,
               invariant=None, timeout=(rc == -9), name=name)
    ms = _re_states.findall(out)
    if ms:
        res["generated"], res["distinct"] = int(ms[-1][0]), int(ms[-1][1])
    m = _re_depth.search(out)
    if m:
        res["depth"] = int(m.group(1))
    m = _re_inv.search(out)
    if m:
        res["invariant"] = m.group(1)
    else:
        m = _re_prop.search(out)
        if m:
            res["invariant"] = m.group(1) or "temporal"
    res["ok"] = (rc == 0)
    return res


def tlc_design(ctx, name, module, cfgfile, expect_ok=True, **kw):
    """Design-level model checking of the specification. Records states/transitions."""
    r = tlc(ctx, name, module, cfgfile, **kw)
    if r["timeout"]:
        raise Undecided("TLC timed out on %s/%s" % (module, cfgfile))
    if r["rc"] not in (0, 12, 13) or (r["generated"] == 0 and not kw.get("simulate")):
        raise Undecided("TLC failed on %s/%s (rc=%d):\n%s" % (module, cfgfile, r["rc"], r["out"][-3000:]))
    ctx.tlc_stats.append(dict(name=name, module=module, cfg=cfgfile, generated=r["generated"],
                              distinct=r["distinct"], depth=r["depth"], wall_s=round(r["wall"], 1),
                              violated=r["invariant"]))
    if expect_ok and r["rc"] != 0:
        raise Undecided("specification %s/%s does not satisfy its own properties (%s): the model is wrong "
                        "or describes a defect that must be confirmed on the real code first\n%s"
                        % (module, cfgfile, r["invariant"], r["out"][-3000:]))
    return r


def behaviours_from_print(out, tag="BEHAVIOUR"):
    """Extracts JSON values printed by PrintT(<<tag, ToJson(x)>>) in a TLC run."""
    res = []
    pat = re.compile(r'<<"%s", "(.*)">>\s*$' % re.escape(tag))
    for line in out.splitlines():
        m = pat.match(line.strip())
        if m:
            s = m.group(1).replace('\\"', '"').replace("\\\\", "\\")
            try:
                res.append(json.loads(s))
            except Exception:
                pass
    return res


# ---------------------------------------------------------------- trace validation

def validate_trace(ctx, name, module, cfgfile, tracefile, nlines, timeout=900, heap=None, extra_files=None, deque=False):
    """Runs a Trace*.tla spec over an ndjson trace. The spec reads 'trace.ndjson', keeps a
    high-water mark of consumed lines in TLC register 1 and prints <<"HWM", n>> from its POSTCONDITION.
    Returns dict(accepted, hwm, invariant, out)."""
    files = {tracefile: "trace.ndjson"}
    files.update(extra_files or {})
    r = tlc(ctx, name, module, cfgfile, workers=1, timeout=timeout, files=files, heap=heap, deque=deque)
    if r["timeout"]:
        raise Undecided("trace validation timed out: %s" % name)
    hwm = None
    m = re.findall(r'<<"HWM", (\d+)>>', r["out"])
    if m:
        hwm = int(m[-1])
    r["hwm"] = hwm
    r["accepted"] = (r["rc"] == 0 and hwm == nlines and r["invariant"] is None)
    if r["rc"] != 0 and r["invariant"] is None and hwm is None and "is violated" not in r["out"] \
            and "Postcondition" not in r["out"] and "POSTCONDITION" not in r["out"]:
        raise Undecided("trace validation could not run (%s, rc=%d):\n%s" % (name, r["rc"], r["out"][-3000:]))
    return r


def count_lines(path):
    n = 0
    with open(path) as fh:
        for line in fh:
            if line.strip():
                n += 1
    return n


# ---------------------------------------------------------------- known findings

def load_known():
    p = os.path.join(VERIF, "known_findings.json")
    if not os.path.exists(p):
        return []
    return json.load(open(p))["findings"]


def classify(ctx, signature, desc, replay_dir):
    """Registers something the real code did that violates the property.
    signature: stable string naming the failing input/call site/history class."""
    for k in load_known():
        if k["property"] == ctx.pid and k.get("status") == "open" and k["signature"] == signature:
            if signature not in ctx.known_seen:
                ctx.known_seen.append(signature)
                print("KNOWN-FINDING: property=%s %s [%s]" % (ctx.pid, k["what"], signature), flush=True)
            return "known"
    ctx.violations.append(dict(signature=signature, desc=desc, replay=replay_dir))
    return "violation"


def save_replay(ctx, label, files, info):
    """Persists a replay artefact directory (survives the scratch cleanup)."""
    h = hashlib.sha1((label + json.dumps(info, sort_keys=True, default=str)).encode()).hexdigest()[:10]
    d = os.path.join(REPLAYS, "%s-%s-%s" % (ctx.pid, re.sub(r"[^A-Za-z0-9_.-]+", "_", label)[:40], h))
    shutil.rmtree(d, ignore_errors=True)
    os.makedirs(d)
    for f in files:
        if f and os.path.exists(f):
            if os.path.isdir(f):
                shutil.copytree(f, os.path.join(d, os.path.basename(f)))
            else:
                shutil.copy(f, d)
    info = dict(info)
    info.update(property=ctx.pid, tier=ctx.tier, seed=ctx.seed, label=label)
    json.dump(info, open(os.path.join(d, "replay.json"), "w"), indent=1, default=str)
    return d


# ---------------------------------------------------------------- evidence + verdict

def write_evidence(ctx, samples, extra=None, assumptions=None, level="model_checking"):
    states = sum(s["distinct"] for s in ctx.tlc_stats)
    trans = sum(s["generated"] for s in ctx.tlc_stats)
    cov = dict(states=max(states, 0), transitions=max(trans, 0),
               traces_validated_against_impl=ctx.traces_validated,
               trace_events_validated=ctx.trace_events,
               samples=samples[:8] if samples else ["(none)"],
               tlc_runs=ctx.tlc_stats,
               known_findings_seen=ctx.known_seen,
               notes=ctx.notes,
               trusted_base=["TLC 1.8", "harness parsers/simulators under /verif/harness", "controller-runtime fake client"])
    if extra:
        cov.update(extra)
    ev = dict(property_id=ctx.pid, tier="thorough" if ctx.tier == "thorough" else "quick", seed=ctx.seed, level=level,
              coverage=cov, assumptions=assumptions or [], wall_s=round(time.time() - ctx.t0, 1),
              violations=len(ctx.violations))
    evdir = os.environ.get("VERIF_EVIDENCE_DIR") or os.path.join(VERIF, "evidence")
    os.makedirs(evdir, exist_ok=True)
    p = os.path.join(evdir, ctx.pid + ".json")
    tmp = p + ".tmp"
    json.dump(ev, open(tmp, "w"), indent=1, default=str)
    os.replace(tmp, p)


def finish(ctx):
    """Prints verdict lines, returns the exit code."""
    if ctx.violations:
        seen = set()
        for v in ctx.violations:
            if v["signature"] in seen:
                continue
            seen.add(v["signature"])
            print("VIOLATION property=%s replay=%s" % (ctx.pid, v["replay"]), flush=True)
            print("  what: %s [%s]" % (v["desc"], v["signature"]), flush=True)
        return 1
    print("OK property=%s tier=%s seed=%d wall=%.0fs known_findings_seen=%d"
          % (ctx.pid, ctx.tier, ctx.seed, time.time() - ctx.t0, len(ctx.known_seen)), flush=True)
    return 0


def write_ndjson(path, events):
    with open(path, "w") as fh:
        for e in events:
            fh.write(json.dumps(e, separators=(",", ":")) + "\n")


def read_ndjson(path):
    res = []
    with open(path) as fh:
        for line in fh:
            line = line.strip()
            if line:
                res.append(json.loads(line))
    return res
