"""Regenerates /verif/MANIFEST.json from the table below (python3 -m vlib.manifest)."""
import json, os, subprocess
from . import core

HOOK_COMMITS = []  # filled from git log of /repo (messages starting with 'verif hook')

# id -> dict(engine, technique, level_text, note, design_ref, thorough=True)
CHECKS = {}


def check(pid, engine, technique, text, note, ref):
    CHECKS[pid] = dict(engine=engine, technique=technique, text=text, note=note, ref=ref)


check("C13", "ratelimit",
      "TLA+ spec RateLimit.tla model-checked by TLC (limiters + delaying queue vs MinSpacing/Coalesced/BoundedDelay); "
      "TLC-generated arrival schedules replayed in real time on the real limiters and queues; recorded histories judged by TLC (TraceRateLimit.tla)",
      "Exhaustive model checking of the transcribed limiters and client-go queue semantics within small bounds, bound to the code by "
      "replaying every enumerated schedule (and simulated deeper ones) on the real pkg/utils/workqueue limiters, the real WorkQueue and the "
      "client-go rate limiting queue, and validating each recorded history against the specification (layer B conformance) and the property "
      "operators themselves (layer A, the verdict).",
      "Trusted: TLC; the harness' re-implementation of controller-runtime's worker loop; wall-clock jitter below the 10 ms allowance "
      "(a failure must reproduce in three independent runs). Schedules whose runs take time (requests arriving while a reload or a reconciliation "
      "is going on) are replayed as well; coalescing is only claimed for instantaneous runs.",
      "DESIGN.md 6 C13")

DYN_TECH = ("TLA+ spec DynUpdate.tla (slot pairing, alignSlots, reload decision) model-checked by TLC against the property invariants; "
            "TLC-generated update/fault behaviours and seeded random ones replayed on the real pipeline + simulated HAProxy; "
            "every recorded update judged by TLC (TraceDynUpdate.tla)")
DYN_NOTE = ("Trusted: TLC; harness/hasim (simulated HAProxy admin/master sockets, loader of the written *.cfg and crt-lists); "
            "controller-runtime fake client. HAProxy's own parser/runtime is not run. Reloads succeed (failed reloads: C12).")
check("C02", "dynupdate", DYN_TECH,
      "Model checking of the transcribed dynamic-update algorithm within small bounds (3-4 targets, <=4 updates, every fault position), "
      "bound to the code by exact conformance of slots/commands/reload decisions on thousands of replayed behaviours, and the property itself "
      "(running table == table loaded from the files just written; any bad answer => reload) evaluated by TLC on every recorded update.",
      DYN_NOTE, "DESIGN.md 6 C02")
check("C11", "dynupdate", DYN_TECH,
      "Same engine as C02; the invariants judged are NoNeedlessReload (endpoint-only change that fits the slots, commands OK => no reload), "
      "NoopIsNoop (re-notified unchanged resources => no reload) and SlotsAfterReload (>= slots-min-free empty slots, count multiple of the increment), "
      "over naming modes, cookie affinity, auth-url backends and certificate rotation.",
      DYN_NOTE, "DESIGN.md 6 C11")

CTL_TECH = ("TLA+ spec Controller.tla (cluster histories + FullModel oracle) model-checked by TLC; TLC-generated and seeded random histories "
            "replayed on the real pipeline (fake API server, real cache/watchers/converters/instance) next to freshly started controllers; "
            "every recorded quiescent point judged by TLC (TraceController.tla)")
CTL_NOTE = ("Trusted: TLC; harness/cfgnf (parser + canonicalisation of internal labels); controller-runtime fake client; the harness plays the API "
            "server (generation bumps, event delivery through the real predicates). HAProxy itself is not run.")
check("C01", "controller", CTL_TECH,
      "Tracker.tla (the dirty-set graph partial syncs rest on) is model-checked and bound to pkg/converters/tracker by exact trace validation of "
      "TLC-proposed call sequences. Every history (TLC-simulated over 3 ingress slots x 12 templates, 2 services, 2 secrets, <=3 events per batch; random over an extended "
      "vocabulary of ~30 annotation sets, tcp services, default backend, secrets, ConfigMap changes, shards) is run incrementally; after each batch "
      "TLC checks Converged (normal form == freshly started controller) and, for the core vocabulary, that the routing tables read from the files "
      "equal Controller!FullModel(cluster). Unstable divergences (nondeterminism) are left to C06.",
      CTL_NOTE, "DESIGN.md 6 C01")

check("C05", "controller", CTL_TECH,
      "After every batch of histories that mix partial and full resyncs with shard counts 0/1/3/5 TLC checks DiskExact on the recorded quiescent "
      "point: the exact normal form of every *.cfg and referenced map/list file equals the one of a freshly started controller with the same "
      "shard count, no section is defined twice, and DiskIsModel: the server slots of every backend of the controller's in-memory model are the "
      "server lines of its section on disk, slot by slot.",
      CTL_NOTE, "DESIGN.md 6 C05")
check("C06", "controller", CTL_TECH,
      "Each cluster state (TLC-simulated and conflict-rich random ones) is configured by an incremental controller with a permuted batch and by "
      "5 (thorough 9) freshly started controllers with shuffled List results and shuffled initial events; TLC checks Deterministic: all normal forms agree.",
      CTL_NOTE + " Map-iteration effects are probabilistic: a dependency on iteration order can need several runs to show.", "DESIGN.md 6 C06")
check("C07", "controller", CTL_TECH + "; loader facts judged by HAConfig!WellFormed",
      "HAConfig!WellFormed (references resolve to exactly one section, no duplicate section, referenced files written, unique server names/ids, "
      "path ids defined, auth-proxy ports unique) is evaluated by TLC on the facts of every configuration written by incremental and fresh controllers "
      "over targeted histories (missing services/secrets, no endpoints, ssl-passthrough, all auth kinds, tcp services, strict-host, no default backend).",
      CTL_NOTE + " Directive syntax is not checked (no HAProxy binary).", "DESIGN.md 6 C07")
check("C12", "controller", CTL_TECH + "; failure points injected by the harness (EISDIR on file writes, socket fault plan, failed reloads)",
      "TLC proposes histories whose reconciliations are hit at one of 11 failure points; after the failure the harness runs the retry the controller "
      "schedules itself (same queue item, empty batch; reload queue self re-add) and TLC checks RetrySucceeds, Converged (files == fresh controller) "
      "and RunningOK (running HAProxy == files).",
      CTL_NOTE + " File write faults are injected by replacing the target by a directory (needs root).", "DESIGN.md 6 C12")

check("C04", "maps",
      "TLA+ spec Maps.tla: HAProxy's map_str/map_dir/map_beg lookup over character sequences + the documented precedence as oracle; TLC enumerates "
      "all rule sets, the real HostsMaps/WriteFrontendMaps emits the match files, TLC judges every request of a closed path alphabet (TraceMaps.tla)",
      "Enumerated-input contract validation: every rule set of <=2 (thorough <=3, exhaustive) rules over 2 hosts x 6 paths x 3 path types x 6 path-type "
      "orders is run through the real map builder; PathPrecedence and NoCrossHost are evaluated by TLC on 22 requests per case.",
      "Trusted: TLC; HAProxy's lookup semantics as transcribed in Maps.tla (no HAProxy binary); regex paths and header filters are not in the alphabet.",
      "DESIGN.md 6 C04")

ENUM_NOTE = "Trusted: TLC; the harness parsers; controller-runtime fake client. "
check("C08", "classselect",
      "TLA+ spec ClassSelect.tla (documented selection rule + delivery table); TLC enumerates all 48 rows and 576 transitions; the real cache facade, "
      "watchers and pipeline run each; TLC judges the recorded decisions (TraceClassSelect.tla)",
      "Exhaustive enumerated-input contract validation: IsValidIngress, GetIngressList, a freshly started controller and an incremental controller "
      "(Ingress changed, or only the IngressClass object created/deleted/re-assigned) must agree with DocSelected for every row and transition; "
      "Ingress changes must be delivered as add/update/delete per the selection before and after.",
      ENUM_NOTE + "The legacy controller's copy of the rule is not covered.", "DESIGN.md 6 C08")
check("C16", "weights",
      "TLA+ spec Weights.tla (integer contract of weighted balancing); TLC enumerates weight/replica vectors; the real RebalanceWeight and the "
      "pipeline with blue/green annotations produce server weights; TLC judges each (input, output) pair (TraceWeights.tla)",
      "Enumerated-input contract validation of a numeric function: range 0..256, zero-iff, order kept, shares proportional up to one rounding unit "
      "per server, and the documented scale (the smallest group gets initial-weight unless the largest would pass 256); n=2 grid exhaustive, n=3 reduced grid exhaustive, a stride sample through the pipeline in deploy and pod mode. Weakest fit of "
      "the technique: TLC contributes enumeration and judgement only.",
      ENUM_NOTE + "The contract is not a transcription of the float32 arithmetic.", "DESIGN.md 6 C16")
check("C19", "snippet",
      "TLA+ spec Snippet.tla (FirstToken / Dropped over character sequences); TLC enumerates all snippet texts; the real pipeline with "
      "--disable-config-keywords writes the backends; TLC judges which lines reached each backend (TraceSnippet.tla)",
      "Exhaustive enumerated-input contract validation: every text of length <= 4 (thorough 6) over {space, tab, newline, a, b, A} plus mixed "
      "line ends, comment lines and quoted / escaped first words x 7 keyword lists, as Ingress annotation, Service annotation, both, or as the "
      "default of the global ConfigMap (which the option must leave alone); a dropped snippet contributes no line, any other appears verbatim "
      "(a first word using quotes may be refused).",
      ENUM_NOTE + "HAProxy's unquoting of the first word is taken from its manual.", "DESIGN.md 6 C19")

check("C03", "controller",
      "TLA+ specs Routing.tla + MapLookup.tla (HAProxy rule evaluation and map lookups) against Routing!Expected (documented routing over "
      "Controller!Routes); cluster states from TLC-simulated histories run on the real pipeline; TLC evaluates every request (TraceRouting.tla)",
      "For every recorded cluster state TLC interprets the generated HTTP and HTTPS frontends, their map files and use_backend chain for 144 requests "
      "(2 schemes x declared/unknown/upper-case hosts, a host covered by a wildcard hostname and one that is not x declared paths and neighbours) "
      "and compares with the documented rule (own host, then the wildcard hostname that covers it, then the default host); the selected backends "
      "must hold exactly the ready endpoints (not-ready ones only as weight-0 servers under drain-support).",
      CTL_NOTE + " HAProxy's evaluation order and map semantics are transcribed, not executed.", "DESIGN.md 6 C03")
check("C15", "controller",
      "TLA+ spec Routing.tla (crt-list SNI selection) against Routing!ExpectedCert (first-created declaring Ingress, default on missing/malformed); "
      "TLS-heavy TLC-simulated histories incl. secret rotation on the real pipeline + simulated HAProxy; judged by TLC (TraceRouting, TraceController)",
      "For every recorded cluster state and 6 SNI names (exact, wildcard child, deeper child, unknown) the certificate selected by the written crt-list "
      "must be the current content of the declared secret or the default certificate; after rotations the running HAProxy must serve what the files hold.",
      CTL_NOTE, "DESIGN.md 6 C15")

check("C18", "authfail",
      "TLA+ spec AuthFail.tla (guard coverage of deny / auth-intercept rules) + MapLookup.tla; TLC enumerates the product of auth-url / oauth / "
      "placement / path type / Lua / auth-proxy range values; the real pipeline writes each configuration; TLC judges every request (TraceAuth.tla)",
      "Exhaustive enumerated-input contract validation over 11792 annotation combinations (incl. an auth-url on the other path of the backend, auth-url values with blanks or quotes, the unprotected path sorting before or after the protected one, CORS on the unprotected path, the "
      "authentication declared on the Service, oauth-uri-prefix as the root path, a placement elected by an older Ingress of the host, an auth Service of the same name in another namespace) x 7 requests x 2 host names (the hostname and its server-alias): a request the documented routing gives to the "
      "protected path must be covered by a deny, or by an auth-intercept followed by deny/redirect-unless-successful, in the frontend or in the "
      "backend section, and that guard must be a deny or a call to the service the path declares (intercepts are followed through the auth proxy); "
      "the protected path shares its backend with an unprotected one.",
      ENUM_NOTE + "ACL semantics are transcribed; auth-request.lua is not executed.", "DESIGN.md 6 C18")

check("C09", "isolation",
      "TLA+ spec Isolation.tla (Permitted per site and setting); TLC enumerates sites (incl. Gateway certificateRefs) x forms x 2^4 settings x static flag x exposure x previous settings; the real pipeline "
      "runs each case in two worlds (reference to an existing foreign object / to nothing); TLC judges the recorded pairs (TraceIsolation.tla)",
      "Relational enumerated-input validation: when the reference is not permitted the exact normal form of the configuration must not depend on the "
      "foreign object; when it is permitted it must (sanity, else undecided). Includes the case where the foreign object is already loaded for its own namespace.",
      ENUM_NOTE + "file:// references are not in this check.", "DESIGN.md 6 C09")

check("C10", "gateway",
      "TLA+ spec GatewayAdmission.tla (independent evaluation of the attachment rules + what an admitted pair produces; Weights.tla contract for "
      "backendRefs); TLC enumerates the two factors of the admission conjunction exhaustively and simulates histories of mutated worlds; the real "
      "pipeline (real cache class validation, real gateway converter) writes each configuration; TLC judges every world (TraceGateway.tla)",
      "Enumerated-input contract validation: for every (listener, route) pair of every world the host/path rule or TCP port is produced iff the pair "
      "is admitted, nothing unattributable is produced (incl. through a foreign-class gateway), and the servers of the route backend are the replicas "
      "of its backendRefs weighted per the Weights contract (missing weight = 1).",
      ENUM_NOTE + "certificateRefs, filters, header matches and v1beta1/v1alpha2 Gateway objects are outside the check.", "DESIGN.md 6 C10")

check("C14", "watchers",
      "TLA+ spec Watchers.tla (one action per critical section of the event handlers and of getChangedObjects) model-checked by TLC against "
      "ExactlyOneBatch / DataChained / QueueFollows; TLC-generated delivery/swap schedules replayed on the real watchers; concurrent executions "
      "under the Go race detector; every recorded execution validated by TLC as a behaviour of the specification (TraceWatchers.tla)",
      "Exhaustive model checking of the hand-off within small bounds, bound to the code by exact trace validation (every recorded batch must equal "
      "the model's batch: object list, resource links, ingress add/upd/del lists, ConfigMap data cur/new) of all 35k two-event schedules, "
      "thousands of deeper simulated ones, and concurrent runs (lost / duplicated / reordered events, data races).",
      "Trusted: TLC; hook H2 (applies the predicates then calls the handler, as controller-runtime's source does); the Go race detector. "
      "Concurrency coverage is statistical (scheduler-dependent), the sequential part is exhaustive within its bounds.", "DESIGN.md 6 C14")

check("C17", "acme",
      "TLA+ spec Acme.tla (part A: decision rows Needed/Obtained; part B: ingress histories with sync kind and leadership, Wanted(cluster) vs queue "
      "Add/Remove); TLC enumerates the 2000 rows and proposes the histories; the real signer over the real cache facade (stub acme client, hook H4) "
      "and the real pipeline with a recording queue behind the real queue facade and the real leader elector over an in-memory lease run them; "
      "TLC judges every row and step (TraceAcme.tla)",
      "Exhaustive enumerated-input contract validation of the signer decision (incl. 30 s either side of the expiry boundary, wildcard and partial "
      "coverage, partial client results) and history validation of the work queue: enqueue what appears or changes, remove what disappears, no "
      "re-enqueue of unchanged secrets on incremental syncs, nothing from a non-leader.",
      "Trusted: TLC; the stub acme client and the recording queue; controller-runtime fake client. The ACME protocol (pkg/acme/client.go) is not run.",
      "DESIGN.md 6 C17")

NOT_BUILT = "check not built yet (planned, DESIGN.md section 6); no claim made until the check exists"


def main():
    props = [json.loads(l) for l in open(os.path.join(core.VERIF, "properties.jsonl"))]
    log = subprocess.run(["git", "-C", core.REPO, "log", "--format=%H %s"], capture_output=True, text=True).stdout
    hooks = [l.split()[0] for l in log.splitlines() if " verif hook" in l]
    checks = []
    for p in props:
        pid = p["id"]
        if pid not in CHECKS:
            continue
        c = CHECKS[pid]
        checks.append(dict(
            property_id=pid,
            quick_cmd="bin/verif check %s --tier quick" % pid,
            thorough_cmd="bin/verif check %s --tier thorough" % pid,
            evidence_file="evidence/%s.json" % pid,
            replay_cmd_template="bin/verif replay {path}",
            engine=c["engine"],
            level_claimed=dict(category="model_checking", text=c["text"], design_ref=c["ref"]),
            level_note=c["note"],
            technique=c["technique"]))
    engines = {}
    for pid, c in CHECKS.items():
        engines.setdefault(c["engine"], []).append(pid)
    m = dict(
        version=1,
        setup_cmd="bin/verif setup",
        hooks=dict(guard="verif",
                   enable="go build -tags verif (harness module /verif/harness, replace github.com/jcmoraisjr/haproxy-ingress => /repo)",
                   baseline_off_cmd="cd /repo && go test -vet=off -count=1 -timeout 25m ./...",
                   source_commits=list(reversed(hooks)), add_only=True),
        engines=[dict(name=e, path="vlib/checks + harness/cmd + spec", serves_properties=sorted(p),
                      kind_free_text="TLC model checking of spec/*.tla + replay/trace validation against the real Go packages")
                 for e, p in sorted(engines.items())],
        checks=checks,
        notes="Explicit TLA+ specification under spec/, checked with TLC and bound to the implementation by replaying TLC-generated "
              "behaviours into the real code and validating recorded traces with TLC. See DESIGN.md.",
        not_applicable=[dict(property_id=p["id"], reason=NOT_BUILT) for p in props if p["id"] not in CHECKS])
    json.dump(m, open(os.path.join(core.VERIF, "MANIFEST.json"), "w"), indent=1)
    print("MANIFEST.json: %d checks, %d not claimed, hooks %s" % (len(checks), len(m["not_applicable"]), [h[:7] for h in hooks]))


if __name__ == "__main__":
    main()
