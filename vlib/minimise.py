"""Delta-debugging of histories: drops events, annotations and whole batches while the real pipeline still
diverges from a fresh controller. The Go-side normal-form comparison only steers the search; the minimal
history is what TLC judges and what is stored as the replay artefact."""
import copy, json, os
from . import core


def _diverges(events, inv="Converged"):
    """history id -> first diverging step (or None)"""
    res = {}
    for e in events:
        if e["ev"] != "State":
            continue
        bad = False
        if inv == "Deterministic":
            bad = len(set(e["fresh"])) > 1
        else:
            bad = (not e["err"]) and e["fresh"] and e["inc"] != e["fresh"][0]
        if bad and e["tr"] not in res:
            res[e["tr"]] = e["step"]
    return res


def run_batch(ctx, hs, tag, fresh=1):
    inp = ctx.path("min", tag + ".json")
    out = ctx.path("min", tag + ".ndjson")
    json.dump(hs, open(inp, "w"))
    core.run([os.path.join(ctx.bindir, "ctl"), "-in", inp, "-out", out, "-work", ctx.path("min", "w", "x"),
              "-fresh", str(fresh), "-seed", str(ctx.seed), "-par", str(core.NCPU)], timeout=1200, env=dict(VERIF_REPO=core.REPO))
    return core.read_ndjson(out)


def candidates(h):
    res = []
    # drop a whole batch (not the first: it creates the base objects)
    for si in range(1, len(h["steps"])):
        c = copy.deepcopy(h)
        del c["steps"][si]
        res.append(c)
    for si, st in enumerate(h["steps"]):
        for oi, op in enumerate(st["ops"]):
            c = copy.deepcopy(h)
            del c["steps"][si]["ops"][oi]
            res.append(c)
            for k in list((op.get("ann") or {})):
                if k == "ssl-redirect":
                    continue
                c = copy.deepcopy(h)
                del c["steps"][si]["ops"][oi]["ann"][k]
                res.append(c)
            if op.get("tls"):
                c = copy.deepcopy(h)
                c["steps"][si]["ops"][oi]["tls"] = []
                res.append(c)
        if st.get("shuffle"):
            c = copy.deepcopy(h)
            c["steps"][si]["shuffle"] = 0
            res.append(c)
    for k in ("defaultsvc", "defaultcrt"):
        if h["opt"].get(k):
            c = copy.deepcopy(h)
            del c["opt"][k]
            res.append(c)
    if h["opt"].get("shards"):
        c = copy.deepcopy(h)
        c["opt"]["shards"] = 0
        res.append(c)
    return res


def minimise(ctx, h, inv="Converged", fresh=1, rounds=40):
    h = copy.deepcopy(h)
    for st in h["steps"]:
        st.pop("cluster", None)
    # cut after the first diverging step
    ev = run_batch(ctx, [h], "m0", fresh)
    d = _diverges(ev, inv)
    if h["id"] not in d:
        return None
    h["steps"] = h["steps"][:d[h["id"]] + 1]
    for r in range(rounds):
        cs = candidates(h)
        if not cs:
            break
        for i, c in enumerate(cs):
            c["id"] = "cand%d" % i
        ev = run_batch(ctx, cs, "m%d" % (r + 1), fresh)
        d = _diverges(ev, inv)
        ok = [c for c in cs if c["id"] in d and d[c["id"]] == len(c["steps"]) - 1]
        if not ok:
            break
        best = min(ok, key=lambda c: (sum(len(s["ops"]) for s in c["steps"]), len(json.dumps(c))))
        best["id"] = h["id"]
        h = best
    return h
