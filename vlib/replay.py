"""bin/verif replay <dir>: re-runs the behaviour stored in a replay artefact on /repo's current tree."""
import json, os, sys, glob
from . import core, minimise


def describe(h):
    for si, st in enumerate(h["steps"]):
        print("  batch %d%s:" % (si, " (fullfirst)" if st.get("fullfirst") else ""))
        for o in st["ops"]:
            extra = {k: v for k, v in (o.get("ann") or {}).items() if k != "ssl-redirect"}
            print("    %s %s %s %s" % (o["kind"], o["name"], "DEL" if o.get("del") else (o.get("tmpl") or ""), extra or ""),
                  ("rules=%s tls=%s" % (json.dumps(o.get("rules")), json.dumps(o.get("tls")))) if o["kind"] == "ing" and not o.get("del") else "")


def main(path):
    info = json.load(open(os.path.join(path, "replay.json")))
    pid = info["property"]
    ctx = core.Ctx(pid, "quick", info.get("seed", 1))
    try:
        hf = glob.glob(os.path.join(path, "*.history.json"))
        if hf:
            core.build_harness(ctx, ["ctl"])
            h = json.load(open(hf[0]))[0]
            inv = info.get("invariant", "Converged")
            if "--min" in sys.argv:
                m = minimise.minimise(ctx, h, "Deterministic" if inv == "Deterministic" else "Converged", fresh=4 if inv == "Deterministic" else 1)
                if m is None:
                    print("does not reproduce")
                    return 0
                h = m
                json.dump([h], open(os.path.join(path, "minimal.history.json"), "w"), indent=1)
            print("history %s, options %s" % (h["id"], h["opt"]))
            describe(h)
            keep = os.path.join(path, "files")
            inp = ctx.path("r", "h.json")
            out = ctx.path("r", "t.ndjson")
            json.dump([h], open(inp, "w"))
            core.run([os.path.join(ctx.bindir, "ctl"), "-in", inp, "-out", out, "-work", ctx.path("r", "w", "x"), "-fresh",
                      "4" if inv == "Deterministic" else "1", "-keep", keep], env=dict(VERIF_REPO=core.REPO), timeout=600)
            for e in core.read_ndjson(out):
                if e["ev"] == "State":
                    ok = e["inc"] == e["fresh"][0] and len(set(e["fresh"])) == 1
                    print("batch %d: %s err=%s reloads=%d" % (e["step"], "same as fresh" if ok else "DIVERGES", e["err"], e["reloads"]))
                    for d in (e["diff"] + e["fdiff"])[:12]:
                        print("     ", d[:500])
            print("files of the last quiescent point kept under", keep)
            return 0
        print(json.dumps(info, indent=1)[:4000])
        print("(no history in this artefact; the recorded trace is in the directory)")
        return 0
    finally:
        ctx.cleanup()
