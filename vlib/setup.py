"""setup_cmd: warms the Go build cache for the harness and checks that TLC starts (offline)."""
import os, subprocess, shutil, sys
from . import core


def main():
    os.makedirs(core.WORKROOT, exist_ok=True)
    shutil.copyfile(os.path.join(core.REPO, "go.sum"), os.path.join(core.HARNESS, "go.sum"))
    env = dict(os.environ)
    env.update(core.GOENV)
    out = os.path.join(core.WORKROOT, "setup-bin")
    os.makedirs(out, exist_ok=True)
    p = subprocess.run(["go", "build", "-tags", "verif", "-o", out + "/", "./cmd/..."], cwd=core.HARNESS, env=env)
    shutil.rmtree(out, ignore_errors=True)
    if p.returncode != 0:
        print("setup: harness build failed", file=sys.stderr)
        return 1
    p = subprocess.run(["java", "-cp", core.TLA_CP, "tlc2.TLC", "-h"], stdout=subprocess.DEVNULL, stderr=subprocess.DEVNULL)
    print("setup ok")
    return 0
