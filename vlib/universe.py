"""The universe of Kubernetes objects the controller drivers draw from.

Core vocabulary (also the constants of spec/Controller.tla): 3 ingress slots (creation order = slot
number), ingress templates over 2 hosts + the default host, 3 paths and 3 path types, 2 services with
3 endpoint sets, 2 TLS secrets with 3 values. Extended vocabulary: annotations and kinds that only the
seeded random driver uses. Ops are the JSON form of harness/hist.Op.
"""
import copy

NS = "d"
H1, H2 = "h1.local", "h2.local"


def P(path, svc, typ="", port="8080"):
    return dict(path=path, type=typ, svc=svc, port=port)


def R(host, *paths):
    return dict(host=host, paths=list(paths))


def T(secret, *hosts):
    return dict(hosts=list(hosts), secret=secret)


# ---- core ingress templates (ids are the constants used by Controller.tla)
ING = {
    "t1": dict(rules=[R(H1, P("/", "s1"))]),
    "t2": dict(rules=[R(H1, P("/a", "s2"))]),
    "t3": dict(rules=[R(H1, P("/", "s2"))]),                      # conflicts with t1 on h1 /
    "t4": dict(rules=[R(H2, P("/", "s1"))], tls=[T("c1", H2)]),
    "t5": dict(rules=[R(H1, P("/a", "s1", "exact"))], tls=[T("c2", H1)]),
    "t6": dict(rules=[R(H1, P("/a/b", "s1", "prefix")), R(H2, P("/a", "s2", "prefix"))]),
    "t7": dict(rules=[R(H1, P("/", "s1"))], tls=[T("c1", H1)]),   # tls for h1 with the other secret
    "t8": dict(rules=[R("", P("/", "s2"))]),                       # default host
    "t9": dict(rules=[R(H2, P("/", "s2"))], tls=[T("c2", H2)]),   # conflicts with t4 (path and tls)
    "t10": dict(rules=[], tls=[T("c1", H1)]),                      # tls only
    "t11": dict(rules=[R(H1, P("/a", "s1", "prefix"), P("/a", "s2", "exact"))]),
    "t12": dict(rules=[R(H2, P("/", "s1", "", "http"))]),          # named port
    "t13": dict(rules=[R("*.h1.local", P("/", "s2"))], tls=[T("c1", "*.h1.local")]),   # wildcard host (C15 only)
    "t14": dict(rules=[R(H2, P("/Up", "s2", "exact"), P("/Pre", "s1", "prefix"))]),      # upper-case letters in exact / prefix paths (C03)
    "t15": dict(rules=[R("", P("/", "s1", "exact"))]),                                    # host-less exact root (C03)
    "t16": dict(rules=[], **{"def": P("", "s2")}),                                         # spec.defaultBackend only (C03)
    "t17": dict(rules=[R("*.h1.local", P("/a", "s1", "prefix"), P("/x", "s2", "exact"))]),  # wildcard host, prefix and exact paths (C03)
    "t18": dict(rules=[R("a.h1.local", P("/a/b", "s2", "prefix"))]),                        # a host the wildcard covers, with one path of its own (C03)
}
CORE_NOWILD = ["t%d" % i for i in range(1, 13)]
CORE_ROUTING = CORE_NOWILD + ["t14", "t15", "t16"]
CORE_WILD = CORE_ROUTING + ["t13", "t17", "t18"]

EPS = {  # endpoint sets: (ready, notready)
    "e0": ([], []),
    "e1": (["1"], []),
    "e2": (["1", "2"], []),
    "e3": (["2"], ["3"]),
    "e4": (["3", "1", "2"], []),
    "e5": (["1"], [], ["4"]),
    "e6": (["1"], ["2"]),          # e2 with address 2 not ready: only the readiness of one address differs      # third element: ready addresses of a second subset, same port names, port 8081
}

SVC_IP = {"s1": "10.1.0.", "s2": "10.2.0.", "s3": "10.3.0.", "auth": "10.9.0."}


def op_ing(slot, tmpl, extra_ann=None, name=None, ns=NS, klass=None):
    t = copy.deepcopy(ING[tmpl]) if isinstance(tmpl, str) else copy.deepcopy(tmpl)
    ann = dict(t.get("ann", {}))
    ann.setdefault("ssl-redirect", "false")
    if extra_ann:
        ann.update(extra_ann)
    op = dict(kind="ing", name="%s/%s" % (ns, name or ("i%d" % slot)), created=slot, ann=ann, rules=t.get("rules", []),
              tls=t.get("tls", []), tmpl=tmpl if isinstance(tmpl, str) else t.get("label", "custom"))
    if t.get("def"):
        op["def"] = t["def"]
    if klass is not None:
        op["class"] = klass
    return op


def op_del(kind, name):
    return dict(kind=kind, name=name, **{"del": True})


def op_svc(svc, ns=NS, ann=None, ports=None):
    return dict(kind="svc", name="%s/%s" % (ns, svc), ports=ports or ["web:8080:8080", "http:80:8080"], ann=ann or {})


def op_eps(svc, eid, ns=NS):
    e = EPS[eid] if isinstance(eid, str) else eid
    ready, notready, ready2 = e[0], e[1], (e[2] if len(e) > 2 else [])
    ip = SVC_IP.get(svc, "10.8.0.")
    mk = lambda n: "%s%s:%s-%s" % (ip, n, svc, n)
    op = dict(kind="eps", name="%s/%s" % (ns, svc), ready=[mk(n) for n in ready], notready=[mk(n) for n in notready],
              ports=["web:8080", "http:8080"], tmpl=eid if isinstance(eid, str) else "custom")
    if ready2:
        op["ready2"], op["ports2"] = [mk(n) for n in ready2], ["web:8081", "http:8081"]
    return op


def op_eps_named(svc, eid, ns=NS):
    o = op_eps(svc, eid, ns)
    o["ports"] = ["http:8080"]
    return o


def op_sec(name, val, ns=NS):
    """val: 'absent' deletes; otherwise crt:<id> | bad | auth:u:p | ca:<id>"""
    if val == "absent":
        return op_del("sec", "%s/%s" % (ns, name))
    sec = val
    if val == "bad":
        # the ways a kubernetes.io/tls secret is unusable: not PEM at all, a key of another certificate, no key
        global _bad
        _bad += 1
        sec = ("bad", "bad:mismatch", "bad:nokey")[_bad % 3]
    return dict(kind="sec", name="%s/%s" % (ns, name), sec=sec, tmpl=val)


_bad = 0


def op_cm(data, name="ingress/cfg"):
    d = {"external-has-lua": "true"} if name == "ingress/cfg" else {}
    d.update(data)
    return dict(kind="cm", name=name, data=d)


def base_ops():
    """Objects every history starts from (first batch)."""
    return [op_svc("s1"), op_svc("s2"), op_eps("s1", "e1"), op_eps("s2", "e2")]


# ------------------------------------------------------------------ seeded random histories

# templates outside the vocabulary of Controller.tla (random driver only)
EXT_ING = {
    "tcp1": dict(label="tcp1", rules=[R("", P("/", "s1"))], ann={"tcp-service-port": "7001"}),
    "tcp2": dict(label="tcp2", rules=[R("tcp.local", P("/", "s2"))], ann={"tcp-service-port": "7001"}),
    "tcp3": dict(label="tcp3", rules=[R("tcp2.local", P("/", "s1"))], ann={"tcp-service-port": "7001"}, tls=[T("c1", "tcp2.local")]),
    "tcp4": dict(label="tcp4", rules=[R("", P("/", "s2"))], ann={"tcp-service-port": "7002"}),
    "tcp7": dict(label="tcp7", rules=[R("tcpr.local", P("/", "res:bucket"))], ann={"tcp-service-port": "7001"}),   # resource backend
    "resb": dict(label="resb", rules=[R(H1, P("/r", "res:bucket"), P("/s", "s1"))]),
    "defb": dict(label="defb", rules=[R(H1, P("/x", "s1"))], **{"def": P("", "s2")}),
    "wild": dict(label="wild", rules=[R("*.h1.local", P("/", "s2"))], tls=[T("c2", "*.h1.local")]),
    "p80": dict(label="p80", rules=[R(H2, P("/p", "s1", "", "80"))]),     # service port 80 -> targetPort 8080: the backend is d_s1_8080
    "multi": dict(label="multi", rules=[R(H1, P("/m", "s1"), P("/m/n", "s2", "prefix"), P("/M", "s2", "exact")), R(H2, P("/m", "s1"))]),
}

EXT_ANN = [
    {"ssl-redirect": "true"},
    {"app-root": "/app"},
    {"redirect-from": "old.local"},
    {"server-alias": "alias.local"},
    {"auth-secret": "basic", "auth-realm": "r"},
    {"auth-url": "http://10.0.0.9:8000/auth"},
    {"auth-url": "svc://auth:8080/check"},
    {"config-backend": "acl x path /x\nhttp-request deny if x"},
    {"cors-enable": "true"},
    {"hsts": "true"},
    {"whitelist-source-range": "10.0.0.0/8"},
    {"rewrite-target": "/"},
    {"balance-algorithm": "leastconn"},
    {"maxconn-server": "10"},
    {"secure-backends": "true"},
    {"backend-protocol": "h2"},
    {"affinity": "cookie"},
    {"slots-min-free": "1"},
    {"dynamic-scaling": "false"},
    {"strict-host": "true"},
    {"ssl-passthrough": "true"},
    {"limit-rps": "10"},
    {"path-type": "prefix"},
    {"path-type": "exact"},
    {"blue-green-deploy": "group=blue=1,group=green=3", "blue-green-mode": "pod"},
    {"initial-weight": "10"},
    {"timeout-server": "10s"},
    {"waf": "modsecurity"},
    {"auth-tls-secret": "ca", "auth-tls-verify-client": "on"},
    {"oauth": "oauth2_proxy"},
]


def random_history(rng, hid, steps=6, ext=False, shards=None, batch=3, slots=3, faults=False, core_extra=True):
    """A history over the core vocabulary; ext adds annotations, basic-auth/CA secrets, global ConfigMap
    changes (-> full sync), default backend and default certificate."""
    opt = dict(shards=shards if shards is not None else rng.choice([0, 0, 1, 3]), watchwithoutclass=True)
    if ext and rng.random() < 0.3:
        opt["defaultsvc"] = "d/s2"
    if ext and rng.random() < 0.2:
        opt["defaultcrt"] = "d/dflt"
    h = dict(id=hid, opt=opt, steps=[])
    first = base_ops()
    if ext:
        first += [op_svc("auth"), op_eps("auth", "e1"), op_sec("basic", "auth:usr:pwd"), op_sec("ca", "ca:ca1")]
        if opt.get("defaultcrt"):
            first.append(op_sec("dflt", "crt:dflt"))
    tm = list(ING)
    live = {}
    for s in range(steps):
        ops = list(first) if s == 0 else []
        for _ in range(1 + rng.randrange(batch)):
            r = rng.random()
            if r < 0.55:
                slot = 1 + rng.randrange(slots)
                if slot in live and rng.random() < 0.3:
                    ops.append(op_del("ing", "%s/i%d" % (NS, slot)))
                    del live[slot]
                else:
                    t = rng.choice(tm)
                    if ext and rng.random() < 0.25:
                        t = EXT_ING[rng.choice(list(EXT_ING))]
                    ann = None
                    if ext and rng.random() < 0.6:
                        ann = {}
                        for _k in range(1 + rng.randrange(2)):
                            ann.update(rng.choice(EXT_ANN))
                    ops.append(op_ing(slot, t, ann))
                    live[slot] = t if isinstance(t, str) else "t1"
            elif r < 0.75:
                svc = rng.choice(["s1", "s2"])
                if ext and rng.random() < 0.15:
                    # the service disappears (and comes back later) or loses its port
                    ops.append(rng.choice([op_del("svc", "%s/%s" % (NS, svc)), op_svc(svc), op_svc(svc, ports=["other:9090:9090"]),
                                           op_del("eps", "%s/%s" % (NS, svc))]))
                else:
                    ops.append(op_eps(svc, rng.choice(list(EPS))))
            elif r < 0.92:
                c = rng.choice(["c1", "c2"])
                ops.append(op_sec(c, rng.choice(["absent", "crt:" + c, "crt:" + c + "v2", "bad" if core_extra else "crt:" + c])))
            elif ext and r < 0.96:
                ops.append(op_cm(rng.choice([{}, {"ssl-redirect": "false"}, {"drain-support": "true"}, {"timeout-client": "30s"},
                                             # global keys that are rendered inside the backend sections (shard files)
                                             {"ssl-redirect-code": "301"}, {"ssl-headers-prefix": "X-TLS"}, {"cookie-key": "Other"},
                                             {"config-proxy": "d_s1_8080\n  http-request deny if { path /zz }"}]))
                           if rng.random() < 0.9 else op_del("cm", "ingress/cfg"))
            elif ext:
                ops.append(rng.choice([op_sec("basic", rng.choice(["auth:usr:pwd", "auth:usr:other", "absent"])),
                                       op_sec("ca", rng.choice(["ca:ca1", "ca:ca2", "absent"])),
                                       op_eps("auth", rng.choice(["e0", "e1", "e2"])),
                                       op_svc("s1", ann=rng.choice([{}, {"balance-algorithm": "first"}, {"maxconn-server": "7"}]))]))
            else:
                if live:
                    slot = rng.choice(list(live))
                    o = op_ing(slot, live[slot])
                    o["touch"] = True
                    ops.append(o)
        st = dict(ops=ops, fullfirst=rng.random() < 0.5)
        if rng.random() < 0.3:
            st["shuffle"] = rng.randrange(1, 1 << 30)
        h["steps"].append(st)
    return h


def random_tcp_history(rng, hid, steps=6):
    """Ingress based TCP services: ports shared by a host-less ingress (default backend of the port) and SNI hostnames,
    with and without TLS, that come and go in partial syncs."""
    tcp = dict(EXT_ING)
    tcp = {k: v for k, v in tcp.items() if k.startswith("tcp")}
    tcp["tcp5"] = dict(label="tcp5", rules=[R("tcp3.local", P("/", "s2"))], ann={"tcp-service-port": "7001"})
    tcp["tcp6"] = dict(label="tcp6", rules=[R("tcp.local", P("/", "s1"))], ann={"tcp-service-port": "7002"})
    # port level keys declared by one of the ingresses that share the port
    tcp["tcp8"] = dict(label="tcp8", rules=[R("tcp8.local", P("/", "s1"))], ann={"tcp-service-port": "7001", "tcp-service-proxy-protocol": "true"})
    # client certificates on a tcp service: the CA secret comes and goes
    tcp["tcpa"] = dict(label="tcpa", rules=[R("tcpa.local", P("/", "s1"))], tls=[T("c1", "tcpa.local")],
                       ann={"tcp-service-port": "7001", "auth-tls-secret": "ca", "auth-tls-verify-client": "on"})
    tcp["tcp9"] = dict(label="tcp9", rules=[R("tcp9.local", P("/", "s2"))], ann={"tcp-service-port": "7001", "tcp-service-log-format": "%ci"})
    h = dict(id=hid, opt=dict(shards=rng.choice([0, 0, 3]), watchwithoutclass=True), steps=[])
    live = {}
    for s in range(steps):
        ops = list(base_ops()) if s == 0 else []
        for _ in range(1 + rng.randrange(2 if s else 3)):
            r = rng.random()
            slot = 1 + rng.randrange(4)
            if r < 0.3 and slot in live:
                ops.append(op_del("ing", "%s/i%d" % (NS, slot)))
                del live[slot]
            elif r < 0.8:
                t = tcp[rng.choice(sorted(tcp))] if rng.random() < 0.85 else rng.choice(["t1", "t4"])
                ops.append(op_ing(slot, t))
                live[slot] = t
            elif r < 0.9:
                ops.append(op_eps(rng.choice(["s1", "s2"]), rng.choice(["e0", "e1", "e2"])))
            elif r < 0.95:
                ops.append(op_sec("c1", rng.choice(["absent", "crt:c1", "crt:c1v2"])))
            else:
                ops.append(op_sec("ca", rng.choice(["absent", "ca:ca1", "ca:ca2"])))
        h["steps"].append(dict(ops=ops, fullfirst=False))
    return h


def op_pod(svc, n, ns=NS, terminating=False, group=None):
    labels = {"app": svc}
    if group:
        labels["group"] = group
    return dict(kind="pod", name="%s/%s-%s" % (ns, svc, n), ip="%s%s" % (SVC_IP.get(svc, "10.8.0."), n), labels=labels, terminating=terminating)


POD_ANN = [
    {"blue-green-deploy": "group=blue=1,group=green=3", "blue-green-mode": "pod"},
    {"blue-green-deploy": "group=blue=1,group=green=2", "blue-green-mode": "deploy"},
    {"backend-server-naming": "pod"},
    {"affinity": "cookie", "session-cookie-value-strategy": "pod-uid"},
    {"assign-backend-server-id": "true"},
    {"affinity": "cookie", "session-cookie-preserve": "true", "backend-server-naming": "ip"},
]


def random_pod_history(rng, hid, steps=6):
    """Pods behind the endpoints (drain-support, blue/green by pod label, names / cookies / ids taken from the pod): pods turn
    terminating, disappear and come back while the Endpoints follow in the same batch or a later one.  What the endpoints
    controller guarantees is kept: the Endpoints of a service name existing pods only (a deleted pod leaves them in the batch
    of its deletion; a terminating one may stay listed)."""
    drain = rng.random() < 0.7
    h = dict(id=hid, opt=dict(shards=rng.choice([0, 0, 3]), watchwithoutclass=True), steps=[])
    grp = lambda n: ("blue", "green")[int(n) % 2]
    pods = {}   # (svc, n) -> terminating
    live = {}
    cur = {"s1": "e1", "s2": "e2"}
    members = lambda eid: {int(n) for part in EPS[eid] for n in part}
    ok = lambda svc, eid: all((svc, n) in pods for n in members(eid))

    def eps(svc, pref=None):
        c = [e for e in (pref or sorted(EPS)) if ok(svc, e)] or [e for e in sorted(EPS) if ok(svc, e)]
        cur[svc] = rng.choice(c)
        return op_eps(svc, cur[svc])

    for s in range(steps):
        ops = []
        if s == 0:
            ops += base_ops()
            ops.append(op_cm({"drain-support": "true"} if drain else {}))
            for svc in ("s1", "s2"):
                for n in (1, 2, 3, 4):
                    ops.append(op_pod(svc, n, group=grp(n)))
                    pods[(svc, n)] = False
            ops.append(op_ing(1, rng.choice(["t1", "t4", "t9"]), rng.choice(POD_ANN)))
            live[1] = True
        for _ in range(1 + rng.randrange(3)):
            r = rng.random()
            svc, n = rng.choice(["s1", "s2"]), rng.choice([1, 2, 3, 4])
            if r < 0.3:
                # a pod turns terminating; the Endpoints may or may not follow in this batch
                if (svc, n) in pods and not pods[(svc, n)]:
                    ops.append(op_pod(svc, n, terminating=True, group=grp(n)))
                    pods[(svc, n)] = True
                    if rng.random() < 0.6:
                        ops.append(eps(svc, ["e0", "e1", "e2", "e3", "e4"]))
            elif r < 0.45:
                if (svc, n) in pods:
                    ops.append(op_del("pod", "%s/%s-%s" % (NS, svc, n)))
                    del pods[(svc, n)]
                    if not ok(svc, cur[svc]):
                        ops.append(eps(svc))
            elif r < 0.55:
                if (svc, n) not in pods:
                    # a pod that has an address is listed by the Endpoints of its Service, ready or not, from the start
                    pods[(svc, n)] = False
                    withn = [e for e in sorted(EPS) if n in members(e) and ok(svc, e)]
                    if withn:
                        ops.append(op_pod(svc, n, group=grp(n + (1 if rng.random() < 0.3 else 0))))
                        ops.append(eps(svc, withn))
                    else:
                        del pods[(svc, n)]
            elif r < 0.8:
                ops.append(eps(svc))
            else:
                slot = 1 + rng.randrange(3)
                if slot in live and rng.random() < 0.25:
                    ops.append(op_del("ing", "%s/i%d" % (NS, slot)))
                    del live[slot]
                else:
                    ops.append(op_ing(slot, rng.choice(["t1", "t2", "t4", "t6", "t9"]), rng.choice(POD_ANN + [None])))
                    live[slot] = True
        st = dict(ops=ops, fullfirst=False)
        if rng.random() < 0.3:
            st["shuffle"] = rng.randrange(1, 1 << 30)
        h["steps"].append(st)
    return h


TCPCM = [
    {},
    {"7010": "d/s1:8080"},
    {"7010": "d/s2:8080", "7011": "d/s1:8080:PROXY"},
    {"7010": "d/s1:8080:::d/c1"},
    {"7010": "d/s1:8080:::d/c1::d/ca", "7011": "d/s2:8080"},
    {"7012": "d/s1:http:PROXY:PROXY-V1"},
    {"7010": "d/s1:8080", "7013": "d/s3:8080"},      # s3 does not exist
]


def random_tcpcm_history(rng, hid, steps=6):
    """TCP services declared by the tcp-services ConfigMap (no tracking links: the converter rebuilds them in every
    reconciliation): the ConfigMap, the services, their endpoints and the crt / ca secrets change in partial syncs."""
    h = dict(id=hid, opt=dict(shards=rng.choice([0, 0, 3]), watchwithoutclass=True), steps=[])
    for s in range(steps):
        ops = []
        if s == 0:
            ops += base_ops() + [op_sec("ca", "ca:ca1"), op_cm(rng.choice(TCPCM), name="ingress/tcp"), op_ing(1, rng.choice(["t1", "t4"]))]
        for _ in range(1 + rng.randrange(2)):
            r = rng.random()
            if r < 0.05:
                ops.append(op_del("cm", "ingress/tcp"))
            elif r < 0.3:
                ops.append(op_cm(rng.choice(TCPCM), name="ingress/tcp"))
            elif r < 0.5:
                ops.append(op_eps(rng.choice(["s1", "s2"]), rng.choice(["e0", "e1", "e2", "e4"])))
            elif r < 0.7:
                ops.append(op_sec("c1", rng.choice(["absent", "crt:c1", "crt:c1v2", "bad"])))
            elif r < 0.8:
                ops.append(op_sec("ca", rng.choice(["absent", "ca:ca1", "ca:ca2"])))
            elif r < 0.9:
                svc = rng.choice(["s1", "s2"])
                ops.append(rng.choice([op_del("svc", "%s/%s" % (NS, svc)), op_svc(svc), op_svc(svc, ports=["other:9090:9090"])]))
            else:
                ops.append(op_ing(1 + rng.randrange(2), rng.choice(["t1", "t2", "t4", "t9"])))
        h["steps"].append(dict(ops=ops, fullfirst=False))
    return h


# ------------------------------------------------------------------ TLA+ view of the core vocabulary

REQ_PATHS = ["/", "/a", "/a/", "/a/b", "/a/b/c", "/ab", "/A", "/x", "/Up", "/up", "/Pre/x", "/pre/x"]
REQ_SNI = [(H1, ""), (H2, ""), ("a.h1.local", "*.h1.local"), ("b.a.h1.local", ""), ("x.local", ""), ("h1.local.x", "")]
REQ_HOSTS = [(H1, H1), (H2, H2), (H1, "H1.LOCAL"), ("x.local", "x.local"), ("a.h1.local", "a.h1.local"), ("b.a.h1.local", "b.a.h1.local")]
REQ_WILD = {"a.h1.local": "*.h1.local"}     # the wildcard hostname covering a request host (one label replaced)


def _chars(s):
    return "<<%s>>" % ", ".join('"%s"' % c for c in s)


def _all_paths():
    return {p["path"] for d in ING.values() for r in d.get("rules", []) for p in r["paths"]}


def _ty(t):
    return {"": "begin", "impl": "begin"}.get(t, t)


def tla_universe():
    """Text of spec/ControllerUniverse.tla (generated; one source of truth with the harness ops)."""
    out = ["------------------------- MODULE ControllerUniverse -------------------------",
           "(* GENERATED from vlib/universe.py by `python3 -m vlib.universe`; do not edit. *)",
           "EXTENDS Integers, Sequences, FiniteSets", ""]
    rules, backs, tls, secs = [], [], [], []
    for t, d in ING.items():
        rs, seen, bk = [], set(), []
        for r in d.get("rules", []):
            for p in r["paths"]:
                h = r["host"] or "<default>"
                key = (h, p["path"], _ty(p["type"]))
                if key in seen:
                    continue
                seen.add(key)
                rs.append('[h |-> "%s", p |-> "%s", ty |-> "%s", s |-> "%s"]' % (key + (p["svc"],)))
                bk.append('h = "%s" /\\ p = "%s" /\\ ty = "%s" -> "%s"' % (key + (p["svc"],)))
        if d.get("def"):
            # spec.defaultBackend: the root of the default host, begin match
            key = ("<default>", "/", "begin")
            if key not in seen:
                seen.add(key)
                rs.append('[h |-> "%s", p |-> "%s", ty |-> "%s", s |-> "%s"]' % (key + (d["def"]["svc"],)))
                bk.append('h = "%s" /\\ p = "%s" /\\ ty = "%s" -> "%s"' % (key + (d["def"]["svc"],)))
        rules.append('t = "%s" -> {%s}' % (t, ", ".join(rs)))
        backs.append('t = "%s" -> (CASE %s [] OTHER -> "none")' % (t, " [] ".join(bk)) if bk else 't = "%s" -> "none"' % t)
        ts, seenh, sc = [], set(), []
        for x in d.get("tls", []):
            for h in x["hosts"]:
                if h in seenh:
                    continue
                seenh.add(h)
                ts.append('[h |-> "%s", c |-> "%s"]' % (h, x["secret"]))
                sc.append('h = "%s" -> "%s"' % (h, x["secret"]))
        tls.append('t = "%s" -> {%s}' % (t, ", ".join(ts)))
        secs.append('t = "%s" -> (CASE %s [] OTHER -> "none")' % (t, " [] ".join(sc)) if sc else 't = "%s" -> "none"' % t)
    j = "\n      [] "
    out += ["TmplRules(t) ==\n    CASE " + j.join(rules) + j + "OTHER -> {}", "",
            "TmplBackend(t, h, p, ty) ==\n    CASE " + j.join(backs) + j + 'OTHER -> "none"', "",
            "TmplTLS(t) ==\n    CASE " + j.join(tls) + j + "OTHER -> {}", "",
            "TmplSecret(t, h) ==\n    CASE " + j.join(secs) + j + 'OTHER -> "none"', "",
            "EpsReady(e) ==\n    CASE " + j.join('e = "%s" -> {%s}' % (e, ", ".join('"%s"' % n for n in sorted(r))) for e, r in ((e, set(v[0]) | set(v[2] if len(v) > 2 else [])) for e, v in EPS.items()))
            + j + "OTHER -> {}", "",
            'InitEps(s) == IF s = "s1" THEN "e1" ELSE "e2"', "",
            "EpsNotReady(e) ==\n    CASE " + j.join('e = "%s" -> {%s}' % (e, ", ".join('"%s"' % n for n in sorted(nr))) for e, nr in ((e, v[1]) for e, v in EPS.items()))
            + j + "OTHER -> {}", "",
            "PathChars(p) ==\n    CASE " + j.join('p = "%s" -> %s' % (pp, _chars(pp)) for pp in sorted(_all_paths())) + j + "OTHER -> <<>>", "",
            "ReqPaths == <<%s>>" % ", ".join(_chars(pp) for pp in REQ_PATHS), "",
            "ReqHosts == <<%s>>" % ", ".join('[name |-> "%s", chars |-> %s, wild |-> "%s"]' % (n, _chars(c), REQ_WILD.get(n, "")) for n, c in REQ_HOSTS), "",
            "ReqSNI == <<%s>>" % ", ".join('[name |-> "%s", chars |-> %s, wild |-> "%s"]' % (n, _chars(n), w) for n, w in REQ_SNI), "",
            "AllTmplIds == {%s}" % ", ".join('"%s"' % t for t in ING), "",
            "============================================================================="]
    return "\n".join(out) + "\n"


def tlc_hist_to_history(hid, hist, opt=None, fullfirst=False):
    """Turns a behaviour printed by Controller!EmitBehaviour into a harness history."""
    h = dict(id=hid, opt=opt or dict(shards=0, watchwithoutclass=True), steps=[])
    for bi, b in enumerate(hist):
        ops = base_ops() if bi == 0 else []
        for e in b["ops"]:
            if e["k"] == "ing":
                if e["v"] == "none":
                    ops.append(op_del("ing", "%s/i%d" % (NS, e["n"])))
                else:
                    ops.append(op_ing(e["n"], e["v"]))
            elif e["k"] == "eps":
                ops.append(op_eps(e["n"], e["v"]))
            elif e["k"] == "sec":
                v = {"absent": "absent", "bad": "bad", "v1": "crt:" + e["n"], "v2": "crt:" + e["n"] + "v2",
                     "w1": "crt:shared1", "w2": "crt:shared2"}[e["v"]]
                ops.append(op_sec(e["n"], v))
        st = dict(ops=ops, fullfirst=fullfirst)
        if b.get("fault", "none") != "none":
            st["faults"] = [FAULTS[b["fault"]]]
            st["faultname"] = b["fault"]
        h["steps"].append(st)
    return h


# failure points of an update (C12): name -> harness fault
FAULTS = {
    "httpmap": dict(point="file:_front_http_host*.map"),
    "httpsmap": dict(point="file:_front_https_host*.map"),
    "crtlist": dict(point="file:_front_bind_crt.list"),
    "maincfg": dict(point="file:haproxy.cfg"),
    "shardcfg": dict(point="file:haproxy5-backend*.cfg"),
    "backmap": dict(point="file:_back_*.map"),
    "cmd0": dict(point="cmd:0", kind="nosuch"),
    "cmd1": dict(point="cmd:1", kind="drop"),
    "cmd2": dict(point="cmd:2", kind="garbage"),
    "reload": dict(point="reload", times=1),
    # (no "reloadreq": a `reload` command whose connection is closed without an answer is how HAProxy < 2.7 answers a successful
    #  reload; the controller cannot tell the two apart, so it is not a failure the property speaks about)
    "shard0cfg": dict(point="file:haproxy5-backend000.cfg"),   # one shard file only: the other changed shards are written
    "shard1cfg": dict(point="file:haproxy5-backend001.cfg"),
    "reload2": dict(point="reload", times=2),
}


if __name__ == "__main__":
    import os
    p = os.path.join(os.path.dirname(os.path.dirname(os.path.abspath(__file__))), "spec", "ControllerUniverse.tla")
    open(p, "w").write(tla_universe())
    print("wrote", p)
